"""Gen/C12_Timeutils.v from oslo_utils/timeutils.py.

Statement-level, typed, fail-closed translation of the time helpers into the monad of
coq/Model/C12_Prim.v (in the style of py2gal, but over datetime values: every operation
that can raise or touches utcnow.override_time is sequenced with bindM in Python's
left-to-right evaluation order).  Functions whose bodies are idioms over Python's object
protocol (try/pop/except AttributeError, `x or default`, for-loop over a non-iterable)
are recognised as whole AST templates instead.  Anything else raises GenError: the
runner then uses the committed baseline copy and the tie rests on the correspondence.

Typing conventions (the trusted part of this translator):
  dt      datetime.datetime               Model dt
  td      datetime.timedelta              Z (microseconds)
  secs    a Python int or float of seconds  pynum; timedelta(seconds=x) = td_of_seconds (binary64 model, may raise)
  targ    "datetime or str" argument      targ (TDt | TStr); used as a datetime -> as_dt (AttributeError for str)
  num     int/float results               fexp (symbolic, evaluated with CPython floats by the harness)
  optdt / opttd / optstr                  option
  mrec    the marshalled dict             record with the seven integer keys + optional 'tzname'
"""
import ast
from common import *
import failclosed

class Unsupported(Exception):
    pass

# the functions translated / recognised below: one plain definition each (plain_def checks the text, failclosed also the run-time
# object and the defaults the output does not carry), the library names the real modules (tools/gen/failclosed.py)
_NOD = {'defaults': {}}
FAILCLOSED = {'generate': [{'src': 'oslo_utils/timeutils.py', 'mod': 'oslo_utils.timeutils',
    'functions': {'parse_isotime': _NOD, 'normalize_time': _NOD, 'utcnow': {'defaults': {'with_timezone': 'False'}}, 'is_older_than': _NOD,
                  'is_newer_than': _NOD, 'utcnow_ts': {'defaults': {'microsecond': 'False'}},
                  'set_time_override': {'defaults': {'override_time': 'None'}}, 'advance_time_delta': _NOD, 'advance_time_seconds': _NOD,
                  'clear_time_override': _NOD, 'marshall_now': {'defaults': {'now': 'None'}}, 'unmarshall_time': _NOD,
                  'delta_seconds': _NOD, 'is_soon': _NOD},
    'imports': {'datetime': 'datetime', 'iso8601': 'iso8601', 'zoneinfo': 'zoneinfo', 'time': 'time', 'calendar': 'calendar'}},
   {'src': 'oslo_utils/fixture.py', 'mod': 'oslo_utils.fixture',
    'classes': {'TimeFixture': {'bases': ['fixtures.Fixture'], 'methods': ['__init__', 'setUp', 'advance_time_delta', 'advance_time_seconds']}},
    'functions': {'TimeFixture.__init__': {'defaults': {'override_time': 'None'}}, 'TimeFixture.setUp': _NOD,
                  'TimeFixture.advance_time_delta': _NOD, 'TimeFixture.advance_time_seconds': _NOD},
    'imports': {'timeutils': 'oslo_utils.timeutils', 'fixtures': 'fixtures'}}]}

FIELDS7 = ['day', 'month', 'year', 'hour', 'minute', 'second', 'microsecond']
COQ_TY = {'dt': 'dt', 'td': 'Z', 'secs': 'pynum', 'targ': 'targ', 'bool': 'bool', 'int': 'Z', 'num': 'fexp', 'optdt': 'option dt',
          'opttd': 'option Z', 'str': 'str', 'optstr': 'option str', 'mrec': 'mrec', 'zone': 'zone', 'unit': 'unit', 'ov': 'override'}
CMP = {ast.Lt: 'CLt', ast.LtE: 'CLe', ast.Gt: 'CGt', ast.GtE: 'CGe'}

def strlit(s):
    return '([%s]%%N : str)' % ';'.join(str(ord(c)) for c in s)

class Tr:
    def __init__(self, params, ret_type, consts):
        self.env = {p: ('v_' + p, t) for p, t in params}     # python name -> (coq name, type)
        self.ret_type = ret_type
        self.consts = consts                                 # module-level integer constants: name -> coq name
        self.n = 0

    def fresh(self):
        self.n += 1
        return 't%d_' % self.n

    def src(self, e):
        return ast.unparse(e)

    # ---------------------------------------------------------------- sequencing
    def seq(self, subs, build):
        """subs: [(code, type, monadic)] in evaluation order; build(list of pure codes) -> (code, type, monadic)"""
        names, wraps = [], []
        for code, ty, mon in subs:
            if mon:
                v = self.fresh(); wraps.append((v, code)); names.append(v)
            else:
                names.append(code)
        code, ty, mon = build(names)
        if wraps:
            if not mon: code = '(ret %s)' % code
            for v, c in reversed(wraps):
                code = '(bindM %s (fun %s => %s))' % (c, v, code)
            mon = True
        return code, ty, mon

    def coerce(self, code, ty, want):
        if ty == want: return code
        if ty == 'int' and want == 'num': return '(FInt %s)' % code
        if ty == 'str' and want == 'optstr': return '(Some %s)' % code
        if ty == 'secs' and want == 'td': raise Unsupported('a number of seconds used as a timedelta')
        raise Unsupported('type %s where %s is needed' % (ty, want))

    # ---------------------------------------------------------------- expressions
    def ex(self, e):
        """-> (code, type, monadic)"""
        if isinstance(e, ast.Constant):
            v = e.value
            if isinstance(v, bool): return ('true' if v else 'false'), 'bool', False
            if isinstance(v, int): return '(%d)' % v, 'int', False
            if isinstance(v, str): return strlit(v), 'str', False
            raise Unsupported('constant %r' % (v,))
        if isinstance(e, ast.Name):
            if e.id in self.env: return self.env[e.id][0], self.env[e.id][1], False
            if e.id in self.consts: return self.consts[e.id], 'int', False
            raise Unsupported('unknown name ' + e.id)
        if isinstance(e, ast.Attribute):
            if self.src(e) == 'utcnow.override_time': return 'get_ov', 'ov', True
            c, t, m = self.ex(e.value)
            if t == 'dt' and e.attr in FIELDS7:
                return self.seq([(c, t, m)], lambda a: ('(dt_%s %s)' % (e.attr, a[0]), 'int', False))
            if t == 'dt' and e.attr == 'tzinfo':
                return self.seq([(c, t, m)], lambda a: (a[0], 'tzi', False))
            raise Unsupported('attribute .%s of %s' % (e.attr, t))
        if isinstance(e, ast.Subscript):
            c, t, m = self.ex(e.value)
            if t == 'mrec' and isinstance(e.slice, ast.Constant) and e.slice.value in FIELDS7:
                k = e.slice.value
                return self.seq([(c, t, m)], lambda a: ('(m_%s %s)' % (k, a[0]), 'int', False))
            raise Unsupported('subscript ' + self.src(e))
        if isinstance(e, ast.UnaryOp) and isinstance(e.op, ast.Not):
            c, t, m = self.ex(e.operand)
            if t != 'bool': raise Unsupported('not on ' + t)
            return self.seq([(c, t, m)], lambda a: ('(negb %s)' % a[0], 'bool', False))
        if isinstance(e, ast.BinOp):
            l = self.ex(e.left); r = self.ex(e.right)
            tl, tr = l[1], r[1]
            if isinstance(e.op, ast.Sub) and (tl, tr) == ('dt', 'td'):
                return self.seq([l, r], lambda a: ('(lift (dt_sub_td %s %s))' % (a[0], a[1]), 'dt', True))
            if isinstance(e.op, ast.Sub) and (tl, tr) == ('dt', 'dt'):
                return self.seq([l, r], lambda a: ('(lift (dt_sub %s %s))' % (a[0], a[1]), 'td', True))
            if isinstance(e.op, ast.Add) and (tl, tr) == ('dt', 'td'):
                return self.seq([l, r], lambda a: ('(lift (dt_add_td %s %s))' % (a[0], a[1]), 'dt', True))
            if isinstance(e.op, (ast.Add, ast.Div)) and tl in ('num', 'int') and tr in ('num', 'int') and 'num' in (tl, tr):
                f = 'FAdd' if isinstance(e.op, ast.Add) else 'FDiv'
                return self.seq([l, r], lambda a: ('(%s %s %s)' % (f, self.coerce(a[0], tl, 'num'), self.coerce(a[1], tr, 'num')), 'num', False))
            raise Unsupported('%s on %s, %s' % (type(e.op).__name__, tl, tr))
        if isinstance(e, ast.Compare) and len(e.ops) == 1:
            op = e.ops[0]; l = self.ex(e.left)
            if isinstance(op, ast.Is) and isinstance(e.comparators[0], ast.Constant) and e.comparators[0].value is None:
                if l[1] == 'ov': return self.seq([l], lambda a: ('(ov_is_none %s)' % a[0], 'bool', False))
                raise Unsupported('is None on %s in an expression' % l[1])
            r = self.ex(e.comparators[0])
            tl, tr = l[1], r[1]
            if type(op) in CMP and (tl, tr) == ('td', 'td'):
                return self.seq([l, r], lambda a: ('(z_cmp %s %s %s)' % (CMP[type(op)], a[0], a[1]), 'bool', False))
            if type(op) in CMP and (tl, tr) == ('dt', 'dt'):
                return self.seq([l, r], lambda a: ('(lift (dt_cmp %s %s %s))' % (CMP[type(op)], a[0], a[1]), 'bool', True))
            if isinstance(op, ast.Eq) and (tl, tr) == ('optstr', 'str'):
                return self.seq([l, r], lambda a: ('(optstr_eq_str %s %s)' % (a[0], a[1]), 'bool', False))
            if isinstance(op, ast.Eq) and (tl, tr) == ('str', 'str'):
                return self.seq([l, r], lambda a: ('(beq %s %s)' % (a[0], a[1]), 'bool', False))
            raise Unsupported('compare %s %s %s' % (tl, type(op).__name__, tr))
        if isinstance(e, ast.IfExp):
            c = self.ex(e.test); a = self.ex(e.body); b = self.ex(e.orelse)
            if c[2] or a[2] or b[2] or c[1] != 'bool': raise Unsupported('conditional expression with effects')
            ty = a[1] if a[1] == b[1] else ('optstr' if {a[1], b[1]} == {'str', 'optstr'} else None)
            if ty is None: raise Unsupported('conditional expression types %s/%s' % (a[1], b[1]))
            return '(if %s then %s else %s)' % (c[0], self.coerce(a[0], a[1], ty), self.coerce(b[0], b[1], ty)), ty, False
        if isinstance(e, ast.Call):
            return self.call(e)
        raise Unsupported(ast.dump(e)[:120])

    def kwargs(self, e, names):
        if e.args or sorted(k.arg for k in e.keywords) != sorted(names): raise Unsupported('keywords of ' + self.src(e))
        return {k.arg: k.value for k in e.keywords}

    def call(self, e):
        fn = self.src(e.func)
        nargs = len(e.args); kws = [k.arg for k in e.keywords]
        def args_pos(n):
            if nargs != n or kws: raise Unsupported('arity of ' + self.src(e))
            return [self.ex(a) for a in e.args]
        if fn == 'utcnow':
            if nargs or kws: raise Unsupported('utcnow with arguments')
            return '(gen_utcnow false)', 'dt', True
        if fn == 'parse_isotime':
            a, = args_pos(1)
            if a[1] != 'str': raise Unsupported('parse_isotime of ' + a[1])
            return self.seq([a], lambda x: ('(gen_parse_isotime %s)' % x[0], 'dt', True))
        if fn == 'normalize_time':
            a, = args_pos(1)
            if a[1] == 'targ':      # duck typing: a str has no utcoffset()
                return self.seq([a], lambda x: ('(bindM (lift (as_dt %s)) gen_normalize_time)' % x[0], 'dt', True))
            if a[1] != 'dt': raise Unsupported('normalize_time of ' + a[1])
            return self.seq([a], lambda x: ('(gen_normalize_time %s)' % x[0], 'dt', True))
        if fn == 'advance_time_delta':
            a, = args_pos(1)
            if a[1] != 'td': raise Unsupported('advance_time_delta of ' + a[1])
            return self.seq([a], lambda x: ('(gen_advance_time_delta %s)' % x[0], 'unit', True))
        if fn == 'datetime.timedelta':
            if nargs == 0 and kws == ['seconds']:
                a = self.ex(e.keywords[0].value)
                if a[1] != 'secs': raise Unsupported('timedelta(seconds=%s)' % a[1])
                return self.seq([a], lambda x: ('(lift (td_of_seconds %s))' % x[0], 'td', True))
            if nargs == 2 and not kws:
                a, b = self.ex(e.args[0]), self.ex(e.args[1])
                if (a[1], b[1]) != ('int', 'secs'): raise Unsupported('timedelta(%s, %s)' % (a[1], b[1]))
                return self.seq([a, b], lambda x: ('(lift (td_of_days_seconds %s %s))' % (x[0], x[1]), 'td', True))
            raise Unsupported('timedelta call ' + self.src(e))
        if fn == 'datetime.datetime':
            kw = self.kwargs(e, FIELDS7)
            subs = [self.ex(kw[k]) for k in FIELDS7]
            if any(s[1] != 'int' for s in subs): raise Unsupported('datetime() of non-int')
            m = {'year': 'f_year', 'month': 'f_month', 'day': 'f_day', 'hour': 'f_hour', 'minute': 'f_minute', 'second': 'f_second', 'microsecond': 'f_us'}
            return self.seq(subs, lambda x: ('(lift (mk_datetime {| %s |}))' % '; '.join('%s := %s' % (m[k], v) for k, v in zip(FIELDS7, x)), 'dt', True))
        if fn == 'dict':
            kw = self.kwargs(e, FIELDS7)
            subs = [self.ex(kw[k]) for k in FIELDS7]
            if any(s[1] != 'int' for s in subs): raise Unsupported('dict() of non-int')
            return self.seq(subs, lambda x: ('{| %s; m_tzname := None |}' % '; '.join('m_%s := %s' % (k, v) for k, v in zip(FIELDS7, x)), 'mrec', False))
        if fn == 'zoneinfo.ZoneInfo':
            a, = args_pos(1)
            if a[1] != 'str': raise Unsupported('ZoneInfo of ' + a[1])
            return self.seq([a], lambda x: ('(call_zone %s)' % x[0], 'zone', True))
        if fn in ('min', 'max'):
            a, b = args_pos(2)
            if (a[1], b[1]) != ('int', 'int'): raise Unsupported('min/max types')
            return self.seq([a, b], lambda x: ('(Z.%s %s %s)' % (fn, x[0], x[1]), 'int', False))
        if fn == 'float':
            a, = args_pos(1)
            if a[1] != 'int': raise Unsupported('float of ' + a[1])
            return self.seq([a], lambda x: ('(FInt %s)' % x[0], 'num', False))
        if fn == 'int':
            a, = args_pos(1)
            if a[1] != 'num': raise Unsupported('int of ' + a[1])
            return self.seq([a], lambda x: ('(FTrunc %s)' % x[0], 'num', False))
        if fn == 'time.time':
            args_pos(0)
            return 'FTime', 'num', False
        if fn == 'calendar.timegm':
            if nargs == 1 and not kws and isinstance(e.args[0], ast.Call) and isinstance(e.args[0].func, ast.Attribute) \
                    and e.args[0].func.attr == 'timetuple' and not e.args[0].args and not e.args[0].keywords:
                a = self.ex(e.args[0].func.value)
                if a[1] != 'dt': raise Unsupported('timetuple of ' + a[1])
                return self.seq([a], lambda x: ('(timegm_of %s)' % x[0], 'int', False))
            raise Unsupported('timegm argument')
        if isinstance(e.func, ast.Attribute):
            recv = self.ex(e.func.value); meth = e.func.attr
            if recv[1] == 'dt' and meth == 'utcoffset' and not nargs and not kws:
                return self.seq([recv], lambda x: ('(dt_utcoffset %s)' % x[0], 'opttd', False))
            if recv[1] == 'dt' and meth == 'replace' and not nargs and kws == ['tzinfo']:
                v = e.keywords[0].value
                if isinstance(v, ast.Constant) and v.value is None:
                    return self.seq([recv], lambda x: ('(dt_replace_tz_none %s)' % x[0], 'dt', False))
                a = self.ex(v)
                if a[1] != 'zone': raise Unsupported('replace(tzinfo=%s)' % a[1])
                return self.seq([recv, a], lambda x: ('(dt_replace_zone %s %s)' % (x[0], x[1]), 'dt', False))
            if recv[1] == 'tzi' and meth == 'tzname' and nargs == 1 and not kws and isinstance(e.args[0], ast.Constant) and e.args[0].value is None:
                return self.seq([recv], lambda x: ('(dt_tzname_none %s)' % x[0], 'optstr', False))
            if recv[1] == 'mrec' and meth == 'get' and nargs == 1 and not kws and isinstance(e.args[0], ast.Constant) and e.args[0].value == 'tzname':
                return self.seq([recv], lambda x: ('(mrec_get_tzname %s)' % x[0], 'optstr', False))
            if recv[1] == 'td' and meth == 'total_seconds' and not nargs and not kws:
                return self.seq([recv], lambda x: ('(td_total_seconds %s)' % x[0], 'num', False))
        raise Unsupported('call ' + self.src(e))

    # ---------------------------------------------------------------- statements
    def bind(self, name, ty):
        self.env[name] = ('v_' + name, ty)
        return 'v_' + name

    def block(self, stmts):
        """-> code of type M <ret_type>"""
        if not stmts:
            if self.ret_type != 'unit': raise Unsupported('falls off the end')
            return '(ret tt)'
        s, rest = stmts[0], stmts[1:]
        if isinstance(s, ast.Expr) and isinstance(s.value, ast.Constant) and isinstance(s.value.value, str):
            return self.block(rest)
        if isinstance(s, ast.Return):
            if s.value is None: raise Unsupported('bare return')
            c, t, m = self.ex(s.value)
            if m:
                if t != self.ret_type: raise Unsupported('return type %s, declared %s' % (t, self.ret_type))
                return c
            return '(ret %s)' % self.coerce(c, t, self.ret_type)
        if isinstance(s, ast.Expr) and isinstance(s.value, ast.Call):
            c, t, m = self.ex(s.value)
            if not m: raise Unsupported('pure call as a statement')
            return '(bindM %s (fun _ => %s))' % (c, self.block(rest))
        if isinstance(s, ast.AugAssign) and isinstance(s.target, ast.Name):
            load = ast.Name(id=s.target.id, ctx=ast.Load())
            return self.block([ast.Assign(targets=[s.target], value=ast.BinOp(left=load, op=s.op, right=s.value))] + rest)
        if isinstance(s, ast.Assign) and len(s.targets) == 1:
            tg = s.targets[0]
            c, t, m = self.ex(s.value)
            if isinstance(tg, ast.Name):
                if t == 'tzi': raise Unsupported('binding a tzinfo object')
                v = self.bind(tg.id, t)
                k = self.block(rest)
                return ('(bindM %s (fun %s => %s))' % (c, v, k)) if m else ('(let %s := %s in %s)' % (v, c, k))
            if self.src(tg) == 'utcnow.override_time':
                if t != 'ov': raise Unsupported('override := ' + t)
                if m: raise Unsupported('effectful override value')
                return '(bindM (put_ov %s) (fun _ => %s))' % (c, self.block(rest))
            if isinstance(tg, ast.Subscript) and isinstance(tg.value, ast.Name) and self.env.get(tg.value.id, (0, 0))[1] == 'mrec' \
                    and isinstance(tg.slice, ast.Constant) and tg.slice.value == 'tzname':
                if m: raise Unsupported('effectful dict value')
                d = self.env[tg.value.id][0]
                return '(let %s := mrec_set_tzname %s %s in %s)' % (d, d, self.coerce(c, t, 'optstr'), self.block(rest))
            raise Unsupported('assignment target ' + self.src(tg))
        if isinstance(s, ast.If):
            return self.if_(s, rest)
        raise Unsupported(ast.dump(s)[:120])

    def branch(self, stmts, rest):
        saved = dict(self.env)
        c = self.block(stmts + rest)
        self.env = saved
        return c

    def if_(self, s, rest):
        t = s.test
        # isinstance(x, str) on a datetime-or-str argument
        if isinstance(t, ast.Call) and self.src(t.func) == 'isinstance' and len(t.args) == 2 and isinstance(t.args[0], ast.Name) \
                and self.src(t.args[1]) == 'str' and self.env.get(t.args[0].id, (0, 0))[1] == 'targ':
            x = t.args[0].id; cx = self.env[x][0]
            saved = dict(self.env)
            self.env[x] = (cx, 'str'); a = self.block(s.body + rest); self.env = dict(saved)
            self.env[x] = (cx, 'dt'); b = self.block(s.orelse + rest); self.env = saved
            return '(match %s with TStr %s => %s | TDt %s => %s end)' % (cx, cx, a, cx, b)
        # x is None on an optional
        if isinstance(t, ast.Compare) and len(t.ops) == 1 and isinstance(t.ops[0], (ast.Is, ast.IsNot)) and isinstance(t.left, ast.Name) \
                and isinstance(t.comparators[0], ast.Constant) and t.comparators[0].value is None and self.env.get(t.left.id, (0, 0))[1] in ('opttd', 'optdt'):
            x = t.left.id; cx, tx = self.env[x]
            none_body, some_body = (s.body, s.orelse) if isinstance(t.ops[0], ast.Is) else (s.orelse, s.body)
            saved = dict(self.env)
            a = self.block(none_body + rest); self.env = dict(saved)
            self.env[x] = (cx, tx[3:]); b = self.block(some_body + rest); self.env = saved
            return '(match %s with None => %s | Some %s => %s end)' % (cx, a, cx, b)
        # `not now` / `now` on an optional datetime: datetime objects are always true, so this is the None test
        neg = isinstance(t, ast.UnaryOp) and isinstance(t.op, ast.Not)
        core = t.operand if neg else t
        if isinstance(core, ast.Name) and self.env.get(core.id, (0, 0))[1] == 'optdt':
            x = core.id; cx, tx = self.env[x]
            none_body, some_body = (s.body, s.orelse) if neg else (s.orelse, s.body)
            saved = dict(self.env)
            a = self.block(none_body + rest); self.env = dict(saved)
            self.env[x] = (cx, 'dt'); b = self.block(some_body + rest); self.env = saved
            return '(match %s with None => %s | Some %s => %s end)' % (cx, a, cx, b)
        # truthiness of a str-or-None value
        if isinstance(t, ast.Name) and self.env.get(t.id, (0, 0))[1] == 'optstr':
            x = t.id; cx, _ = self.env[x]
            saved = dict(self.env)
            self.env[x] = (cx, 'str'); a = self.block(s.body + rest); self.env = dict(saved)
            b = self.block(s.orelse + rest); self.env = saved
            return '(match optstr_truthy %s with Some %s => %s | None => %s end)' % (cx, cx, a, b)
        c, ty, m = self.ex(t)
        if ty == 'tzi': c, ty = '(dt_has_tzinfo %s)' % c, 'bool'      # tzinfo objects are true, None is false
        if ty != 'bool': raise Unsupported('if on ' + ty)
        a = self.branch(s.body, rest); b = self.branch(s.orelse, rest)
        if m:
            v = self.fresh()
            return '(bindM %s (fun %s => if %s then %s else %s))' % (c, v, v, a, b)
        return '(if %s then %s else %s)' % (c, a, b)

def plain_def(tree, name):
    """the module-level `def name`, which must be a plain function: a decorator (cache, wrapper, ...) changes what
    the name denotes without changing the body, and a second definition or a later rebinding of the name replaces it —
    none of that is translated, so fail closed"""
    f = find_def(tree, name)
    if f.decorator_list:
        raise GenError('%s is decorated (%s): not translated' % (name, ', '.join(ast.unparse(d) for d in f.decorator_list)))
    for n in ast.walk(tree):
        if n is f: continue
        if isinstance(n, (ast.FunctionDef, ast.AsyncFunctionDef, ast.ClassDef)) and n.name == name and n in tree.body:
            raise GenError('%s is defined more than once' % name)
        if isinstance(n, (ast.Assign, ast.AugAssign, ast.AnnAssign)):
            tgts = n.targets if isinstance(n, ast.Assign) else [n.target]
            for t in tgts:
                for x in ast.walk(t):
                    if isinstance(x, ast.Name) and x.id == name and isinstance(x.ctx, ast.Store):
                        raise GenError('the name %s is rebound by an assignment' % name)
    return f

def strip_doc(body):
    if body and isinstance(body[0], ast.Expr) and isinstance(body[0].value, ast.Constant) and isinstance(body[0].value.value, str):
        return body[1:]
    return body

def translate(tree, name, params, ret_type, consts):
    f = plain_def(tree, name)
    argn = [a.arg for a in f.args.args]
    if argn != [p for p, _ in params] or f.args.vararg or f.args.kwarg or f.args.kwonlyargs:
        raise GenError('signature of %s: %s' % (name, argn))
    tr = Tr(params, ret_type, consts)
    try:
        body = tr.block(f.body)
    except Unsupported as e:
        raise GenError('%s: %s' % (name, e))
    args = ''.join(' (v_%s : %s)' % (p, COQ_TY[t]) for p, t in params)
    return 'Definition gen_%s%s : M %s :=\n  %s.\n' % (name, args, COQ_TY[ret_type] if ' ' not in COQ_TY[ret_type] else '(%s)' % COQ_TY[ret_type], body)

# ---------------------------------------------------------------- whole-function templates
TEMPLATES = {
    'parse_isotime': ('''
def parse_isotime(timestr):
    try:
        return iso8601.parse_date(timestr)
    except iso8601.ParseError as e:
        raise ValueError(str(e))
    except TypeError as e:
        raise ValueError(str(e))
''', '''(* iso8601.parse_date; ParseError (a ValueError) and TypeError are re-raised as ValueError *)
Definition gen_parse_isotime (v_timestr : str) : M dt :=
  fun w => match lib_parse w v_timestr with
           | Ok d => (Ok d, w)
           | Exn TypeError => (Exn ValueError, w)
           | Exn e => (Exn e, w)
           end.
'''),
    'utcnow': ('''
def utcnow(with_timezone=False):
    if utcnow.override_time:
        try:
            return utcnow.override_time.pop(0)
        except AttributeError:
            return utcnow.override_time
    if with_timezone:
        return datetime.datetime.now(tz=iso8601.iso8601.UTC)
    return datetime.datetime.now(datetime.timezone.utc).replace(tzinfo=None)
''', '''(* a true override wins: a non-empty list is popped from the front, a datetime (no .pop) is returned as is *)
Definition gen_utcnow (v_with_timezone : bool) : M dt :=
  fun w => match ov w with
           | One t => (Ok t, w)
           | Many (t :: r) => (Ok t, set_ov w (Many r))
           | Many [] | NoOv => real_now v_with_timezone w
           end.
'''),
    'set_time_override': ('''
def set_time_override(override_time=None):
    utcnow.override_time = (
        override_time or
        datetime.datetime.now(datetime.timezone.utc).replace(tzinfo=None))
''', '''(* [override_time or <OS clock, naive>]: None and the empty list are false *)
Definition gen_set_time_override (v_override_time : override) : M unit :=
  fun w => match v_override_time with
           | One t => put_ov (One t) w
           | Many (t :: r) => put_ov (Many (t :: r)) w
           | Many [] | NoOv => put_ov (One (naive (real w))) w
           end.
'''),
    'advance_time_delta': ('''
def advance_time_delta(timedelta):
    assert utcnow.override_time is not None  # nosec
    try:
        for dt in utcnow.override_time:
            dt += timedelta
    except TypeError:
        utcnow.override_time += timedelta
''', '''(* the for loop rebinds a local (a list override is left alone, each sum may overflow);
   a datetime is not iterable: TypeError, then override_time += timedelta *)
Definition gen_advance_time_delta (v_timedelta : Z) : M unit :=
  fun w => match ov w with
           | NoOv => (Exn OtherError, w)
           | Many l => if forallb (fun t => in_range (wall t + v_timedelta)) l then (Ok tt, w) else (Exn OverflowError, w)
           | One t => match dt_add_td t v_timedelta with
                      | Ok t' => put_ov (One t') w
                      | Exn e => (Exn e, w)
                      end
           end.
'''),
}

def template(tree, name):
    ref_src, coq = TEMPLATES[name]
    ref = ast.parse(ref_src).body[0]
    f = plain_def(tree, name)
    if ast.dump(f.args) != ast.dump(ref.args) or \
       [ast.dump(x) for x in strip_doc(f.body)] != [ast.dump(x) for x in strip_doc(ref.body)]:
        raise GenError('%s no longer has the recognised shape' % name)
    return coq

FIXTURE_REF = '''
class TimeFixture(fixtures.Fixture):
    def __init__(self, override_time=None):
        super().__init__()
        self._override_time = override_time
    def setUp(self):
        super().setUp()
        timeutils.set_time_override(self._override_time)
        self.addCleanup(timeutils.clear_time_override)
    def advance_time_delta(self, timedelta):
        timeutils.advance_time_delta(timedelta)
    def advance_time_seconds(self, seconds):
        timeutils.advance_time_seconds(seconds)
'''
FIXTURE_COQ = '''(* oslo_utils.fixture.TimeFixture: setUp = set_time_override(the constructor argument) + clear_time_override registered as
   clean-up; the advance methods call the module functions (the fixture keeps no instant of its own) *)
Definition gen_fixture_setUp (v_override_time : override) : M unit := gen_set_time_override v_override_time.
Definition gen_fixture_cleanUp : M unit := gen_clear_time_override.
Definition gen_fixture_advance_time_delta (v_timedelta : Z) : M unit := gen_advance_time_delta v_timedelta.
Definition gen_fixture_advance_time_seconds (v_seconds : SECS_TY) : M unit := gen_advance_time_seconds v_seconds.
'''

def fixture_template():
    tree = repo_ast('oslo_utils/fixture.py')
    ref = ast.parse(FIXTURE_REF).body[0]
    cls = [n for n in tree.body if isinstance(n, ast.ClassDef) and n.name == 'TimeFixture']
    if len(cls) != 1: raise GenError('TimeFixture not found')
    cls = cls[0]
    def methods(c):
        out = {}
        for n in strip_doc(c.body):
            if not isinstance(n, ast.FunctionDef): raise GenError('TimeFixture has a non-method member')
            out[n.name] = (ast.dump(n.args), [ast.dump(x) for x in strip_doc(n.body)], [ast.dump(d) for d in n.decorator_list])
        return out
    if [ast.dump(b) for b in cls.bases] != [ast.dump(b) for b in ref.bases] or cls.keywords or cls.decorator_list or methods(cls) != methods(ref):
        raise GenError('TimeFixture no longer has the recognised shape')
    return FIXTURE_COQ.replace('SECS_TY', COQ_TY['secs'])

def generate():
    failclosed.check_all(FAILCLOSED['generate'])
    m = repo_import('oslo_utils.timeutils')
    tree = repo_ast('oslo_utils/timeutils.py')
    cap = getattr(m, '_MAX_DATETIME_SEC', None)
    if not isinstance(cap, int) or isinstance(cap, bool): raise GenError('_MAX_DATETIME_SEC is not an int')
    # the override slot starts empty
    init = [n for n in tree.body if isinstance(n, ast.Assign) and ast.unparse(n.targets[0]) == 'utcnow.override_time']
    if len(init) != 1 or not (isinstance(init[0].value, ast.Constant) and init[0].value.value is None):
        raise GenError('utcnow.override_time is not initialised to None')
    consts = {'_MAX_DATETIME_SEC': 'gen_MAX_DATETIME_SEC'}
    out = [HEADER % ('oslo_utils/timeutils.py', 'tools/gen/gen_C12.py')]
    out.append('From Coq Require Import String.\nRequire Import OV.Base.Bytes OV.Base.Py.\nRequire Import OV.Model.C12_Calendar OV.Model.C12_Prim.\nOpen Scope Z_scope.\n')
    out.append('Definition gen_MAX_DATETIME_SEC : Z := (%d).\n' % cap)
    out.append(template(tree, 'parse_isotime'))
    out.append(translate(tree, 'normalize_time', [('timestamp', 'dt')], 'dt', consts))
    out.append(template(tree, 'utcnow'))
    out.append(translate(tree, 'is_older_than', [('before', 'targ'), ('seconds', 'secs')], 'bool', consts))
    out.append(translate(tree, 'is_newer_than', [('after', 'targ'), ('seconds', 'secs')], 'bool', consts))
    out.append(translate(tree, 'utcnow_ts', [('microsecond', 'bool')], 'num', consts))
    out.append(template(tree, 'set_time_override'))
    out.append(template(tree, 'advance_time_delta'))
    out.append(translate(tree, 'advance_time_seconds', [('seconds', 'secs')], 'unit', consts))
    out.append(translate_clear(tree))
    out.append(translate(tree, 'marshall_now', [('now', 'optdt')], 'mrec', consts))
    out.append(translate(tree, 'unmarshall_time', [('tyme', 'mrec')], 'dt', consts))
    out.append(translate(tree, 'delta_seconds', [('before', 'dt'), ('after', 'dt')], 'num', consts))
    out.append(translate(tree, 'is_soon', [('dt', 'targ'), ('window', 'secs')], 'bool', consts))
    out.append(fixture_template())
    return '\n'.join(out)

ISO_LOOKAHEAD = "(?!$)  # Don't allow YYYYMM"
ISO_GROUPS = ['year', 'monthdash', 'month', 'daydash', 'day', 'separator', 'hour', 'minute', 'second', 'second_fraction', 'timezone',
              'tz_sign', 'tz_hour', 'tz_minute']

def generate_iso():
    """Gen/C12_Iso8601.v: the regular expression of iso8601.parse_date (third-party library, the object timeutils calls).
    Its one look-ahead, `(?P<month>[0-9]{2})(?!$)`, is outside the regex engine: it is removed and the model rejects a match
    in which `month` matched and neither day group did (after a 2-digit basic month the only continuation the pattern
    offers besides a day is `$`, which the look-ahead forbids; with a day present the position is not at `$`)."""
    import re, re._parser as P, inspect
    import regex_tr
    failclosed.check({'src': 'oslo_utils/timeutils.py', 'mod': 'oslo_utils.timeutils', 'functions': {'parse_isotime': _NOD},
                      'imports': {'iso8601': 'iso8601'}})      # timeutils.iso8601 is the real module
    import iso8601
    lib = iso8601.iso8601
    pat = getattr(lib, 'ISO8601_REGEX', None)
    if not isinstance(pat, re.Pattern) or (pat.flags & ~re.U) != re.X: raise GenError('iso8601.ISO8601_REGEX: unexpected object / flags')
    src = pat.pattern
    if src.count(ISO_LOOKAHEAD) != 1 or '(?' in src.replace(ISO_LOOKAHEAD, '').replace('(?P<', ''):
        raise GenError('iso8601.ISO8601_REGEX: the look-ahead is not where it was / other extensions present')
    # parse_date must still be: match, drop None groups, build datetime from the named groups (shape check of the source)
    psrc = inspect.getsource(lib.parse_date)
    for needle in ('ISO8601_REGEX.match(datestring)', 'groups.get("month", groups.get("monthdash", 1))', 'groups.get("day", groups.get("daydash", 1))',
                   'Decimal(f"0.{groups.get(\'second_fraction\', 0)}") * Decimal("1000000.0")', 'parse_timezone(groups, default_timezone=default_timezone)'):
        if needle not in psrc: raise GenError('iso8601.parse_date changed: %r not found' % needle)
    try:
        tree = P.parse(src.replace(ISO_LOOKAHEAD, ''), re.X)
        coq = regex_tr.tr_seq(list(tree), tree.state.flags)
    except regex_tr.Unsupported as e:
        raise GenError('iso8601 regex: %s' % e)
    gd = tree.state.groupdict
    if sorted(gd) != sorted(ISO_GROUPS): raise GenError('iso8601 regex: named groups changed')
    out = [HEADER % ('site-packages/iso8601/iso8601.py (ISO8601_REGEX)', 'tools/gen/gen_C12.py')]
    out.append('Require Import OV.Base.Bytes OV.Base.Regex.\nOpen Scope N_scope.\n')
    out.append('Definition iso8601_re : re := %s.\n' % coq)
    for g in ISO_GROUPS: out.append('Definition ig_%s : nat := %d%%nat.' % (g, gd[g]))
    return '\n'.join(out) + '\n'

def translate_clear(tree):
    """clear_time_override: utcnow.override_time = None"""
    f = plain_def(tree, 'clear_time_override')
    body = strip_doc(f.body)
    if f.args.args or len(body) != 1 or not isinstance(body[0], ast.Assign) or ast.unparse(body[0].targets[0]) != 'utcnow.override_time' \
            or not (isinstance(body[0].value, ast.Constant) and body[0].value.value is None):
        raise GenError('clear_time_override no longer has the recognised shape')
    return 'Definition gen_clear_time_override : M unit :=\n  (bindM (put_ov NoOv) (fun _ => (ret tt))).\n'

if __name__ == '__main__':
    import sys
    sys.stdout.write(generate())
