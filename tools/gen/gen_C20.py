"""Gen/C20_Consts.v and Gen/C20_Code.v from oslo_utils/fileutils.py.

generate_consts(): runtime tables (the errno module, os.SEEK_*) and the default arguments of the
five file helpers (read from the function signatures of the imported module and cross-checked
against the AST).

generate_code(): statement-by-statement translation of ensure_tree, delete_if_exists,
write_to_tempfile, compute_file_checksum and last_bytes into Gallina over the runtime interface of
Model/C20_OS.v (explicit world threading, `try/except OSError as e` with errno tests, bare
`raise`, `try/finally`, `with open(..., 'rb') as f`, the `for chunk in iter(lambda: f.read(n), b'')`
loop as a fuelled Fixpoint).  Fail closed: any statement or expression outside the recognised
subset raises GenError, the runner then uses the committed baseline and the tie rests on the
correspondence check.
"""
import ast, inspect
from common import *
import failclosed

SRC = 'oslo_utils/fileutils.py'
# the five helpers: one undecorated definition each, bound to its name at run time (their defaults are read from the live signature
# and emitted); the library names they use are the real modules (tools/gen/failclosed.py)
_A = failclosed.ANY
_FC = {'src': SRC, 'mod': 'oslo_utils.fileutils',
       'functions': {'ensure_tree': {'defaults': {'mode': _A}}, 'delete_if_exists': {'defaults': {'remove': 'os.unlink'}},
                     'write_to_tempfile': {'defaults': {'path': 'None', 'suffix': _A, 'prefix': _A}},
                     'compute_file_checksum': {'defaults': {'read_chunksize': _A, 'algorithm': _A}}, 'last_bytes': {'defaults': {}}},
       'imports': {'os': 'os', 'errno': 'errno', 'tempfile': 'tempfile', 'hashlib': 'hashlib', 'time': 'time'}}
# generate_code does not depend on the defaults (a call that omits an argument is translated to the default_* constant of generate_consts)
FAILCLOSED = {'generate_consts': [_FC],
              'generate_code': [dict(_FC, functions={q: {'defaults': None} for q in _FC['functions']})]}

# ------------------------------------------------------------------ constants

def _sig_defaults(m, tree, fname):
    """default values of the keyword parameters, from the live signature, cross-checked with the AST"""
    f = getattr(m, fname)
    sig = inspect.signature(f)
    node = find_def(tree, fname)
    names = [a.arg for a in node.args.args]
    if list(sig.parameters) != names:
        raise GenError('%s: signature and AST disagree' % fname)
    return names, {k: p.default for k, p in sig.parameters.items() if p.default is not inspect.Parameter.empty}

def generate_consts():
    import errno, os
    failclosed.check_all(FAILCLOSED['generate_consts'])
    m = repo_import('oslo_utils.fileutils')
    tree = repo_ast(SRC)
    out = [HEADER % (SRC + ' (defaults) and the errno/os modules of the running interpreter (runtime tables)', 'tools/gen/gen_C20.py')]
    out.append('Require Import OV.Base.Bytes.')
    out.append('Open Scope Z_scope.')
    out.append('(* errno module of the running interpreter *)')
    names = sorted(n for n in dir(errno) if n.startswith('E') and isinstance(getattr(errno, n), int))
    if not names: raise GenError('errno module is empty')
    for n in names:
        out.append('Definition errno_%s : Z := %d.' % (n, getattr(errno, n)))
    out.append('Definition errno_errorcode : list Z := [%s].' % '; '.join(str(k) for k in sorted(errno.errorcode)))
    # the OSError subclass CPython selects for OSError(errno, msg) — also what a failing system call raises
    cls = {}
    for k in sorted(set(errno.errorcode) | {getattr(errno, n) for n in names}):
        c = type(OSError(k, 'x')).__name__
        if c != 'OSError': cls[k] = c
    out.append('Definition oserror_classes : list (Z * str) := [%s]%%N.' % '; '.join('(%d%%Z, %s)' % (k, lit(v)) for k, v in sorted(cls.items())))
    for n in ('SEEK_SET', 'SEEK_CUR', 'SEEK_END'):
        out.append('Definition os_%s : Z := %d.' % (n, getattr(os, n)))
    # hashlib of the running interpreter: the names hashlib.new accepts, and those whose hexdigest() needs a length
    import hashlib
    avail, xof = [], []
    for n in sorted(hashlib.algorithms_available):
        try: h = hashlib.new(n)
        except ValueError: continue
        avail.append(n)
        try: h.hexdigest()
        except TypeError: xof.append(n)
    out.append('Definition hash_algorithms : list str := [%s]%%N.' % '; '.join(lit(n) for n in avail))
    out.append('Definition hash_xof : list str := [%s]%%N.' % '; '.join(lit(n) for n in xof))
    # defaults of the helpers
    names, d = _sig_defaults(m, tree, 'compute_file_checksum')
    if names != ['path', 'read_chunksize', 'algorithm']: raise GenError('compute_file_checksum signature: %s' % names)
    if not (isinstance(d.get('read_chunksize'), int) and not isinstance(d['read_chunksize'], bool) and isinstance(d.get('algorithm'), str)):
        raise GenError('compute_file_checksum defaults')
    out.append('(* defaults of the helpers *)')
    out.append('Definition default_read_chunksize : Z := %d.' % d['read_chunksize'])
    out.append('Definition default_algorithm : str := %s%%N.  (* %r *)' % (lit(d['algorithm']), d['algorithm']))
    names, d = _sig_defaults(m, tree, 'ensure_tree')
    if names != ['path', 'mode'] or not isinstance(d.get('mode'), int): raise GenError('ensure_tree signature')
    out.append('Definition default_mode : Z := %d.' % d['mode'])
    names, d = _sig_defaults(m, tree, 'write_to_tempfile')
    if names != ['content', 'path', 'suffix', 'prefix'] or d.get('path', 0) is not None or not isinstance(d.get('suffix'), str) \
       or not isinstance(d.get('prefix'), str):
        raise GenError('write_to_tempfile signature')
    out.append('Definition default_suffix : str := %s%%N.' % lit(d['suffix']))
    out.append('Definition default_prefix : str := %s%%N.' % lit(d['prefix']))
    names, d = _sig_defaults(m, tree, 'delete_if_exists')
    import os as _os
    if names != ['path', 'remove'] or d.get('remove') is not _os.unlink: raise GenError('delete_if_exists signature/default remove')
    names, d = _sig_defaults(m, tree, 'last_bytes')
    if names != ['path', 'num'] or d: raise GenError('last_bytes signature')
    return '\n'.join(out) + '\n'

# ------------------------------------------------------------------ statement-level translation

class T:
    """translator for one function.  Types of Python values:
         'path'/'bytes' -> bytes, 'int' -> Z, 'optpath' -> option bytes, 'file' -> fobj, 'hash' -> H,
         'remove' -> bytes -> W -> W * ores unit, 'unit'
       The world variable is `w` (shadowed after each effectful call)."""
    def __init__(self, fname, params):
        self.fname = fname
        self.types = dict(params)
        self.aux = []
        self.tmp = 0
        self.exc = None        # (python name, coq errno variable) inside an `except OSError as e` handler
        self.narrow = {}       # optional path narrowed to a path inside `if path:`
        self.hooks = []        # wrappers applied to every exceptional exit (pending `finally` clauses, loop results)
        self.uses_world = False

    def fail(self, what, node=None):
        raise GenError('%s: %s%s' % (self.fname, what, (' at line %d: %s' % (node.lineno, ast.unparse(node)[:80])) if node is not None and hasattr(node, 'lineno') else ''))

    # -------- pure expressions
    def pure(self, e):
        if isinstance(e, ast.Constant):
            v = e.value
            if isinstance(v, bool): self.fail('bool constant', e)
            if isinstance(v, int): return '(%d)' % v, 'int'
            if isinstance(v, (bytes, str)): return '(%s%%N : bytes)' % lit(v), 'bytes'
            if v is None: return 'None', 'optpath'
            self.fail('constant', e)
        if isinstance(e, ast.Name):
            if e.id in self.narrow: return self.narrow[e.id]
            if e.id not in self.types: self.fail('unknown name ' + e.id, e)
            return e.id, self.types[e.id]
        if isinstance(e, ast.UnaryOp) and isinstance(e.op, ast.USub):
            a, t = self.pure(e.operand)
            if t != 'int': self.fail('negation of ' + t, e)
            return '(- %s)' % a, 'int'
        if isinstance(e, ast.Attribute) and isinstance(e.value, ast.Name):
            base, attr = e.value.id, e.attr
            if base in self.types: self.fail('attribute of a local', e)
            if base == 'errno':
                import errno
                if not isinstance(getattr(errno, attr, None), int): self.fail('errno.%s does not exist' % attr, e)
                return 'errno_' + attr, 'int'
            if base == 'os' and attr in ('SEEK_SET', 'SEEK_CUR', 'SEEK_END'):
                return 'os_' + attr, 'int'
            self.fail('attribute', e)
        if isinstance(e, ast.Compare) and len(e.ops) == 1 and isinstance(e.ops[0], (ast.Eq, ast.NotEq)):
            # e.errno == errno.X   (either order)
            def side(x):
                if self.exc and isinstance(x, ast.Attribute) and isinstance(x.value, ast.Name) and x.value.id == self.exc[0] and x.attr == 'errno':
                    return '(os_errno %s)' % self.exc[1], 'int'        # the handler looks at the errno attribute only, never at the class
                return self.pure(x)
            a, ta = side(e.left); b, tb = side(e.comparators[0])
            if ta != 'int' or tb != 'int': self.fail('comparison of %s and %s' % (ta, tb), e)
            t = '(%s =? %s)' % (a, b)
            return (t if isinstance(e.ops[0], ast.Eq) else '(negb %s)' % t), 'bool'
        if isinstance(e, ast.UnaryOp) and isinstance(e.op, ast.Not):
            a, t = self.pure(e.operand)
            if t != 'bool': self.fail('not on ' + t, e)
            return '(negb %s)' % a, 'bool'
        if isinstance(e, ast.BoolOp):
            parts = [self.pure(v) for v in e.values]
            if any(t != 'bool' for _, t in parts): self.fail('and/or on non-bool', e)
            return '(' + (' && ' if isinstance(e.op, ast.And) else ' || ').join(p for p, _ in parts) + ')', 'bool'
        if isinstance(e, ast.Call) and ast.unparse(e.func) == 'os.path.isdir' and len(e.args) == 1 and not e.keywords:
            a, t = self.pure(e.args[0])
            if t != 'path': self.fail('isdir of ' + t, e)
            self.uses_world = True
            return '(rt_isdir rt %s w)' % a, 'bool'
        if isinstance(e, ast.Call) and isinstance(e.func, ast.Attribute) and isinstance(e.func.value, ast.Name) \
                and self.types.get(e.func.value.id) == 'file' and e.func.attr == 'tell' and not e.args and not e.keywords:
            return '(ftell %s)' % e.func.value.id, 'int'
        if isinstance(e, ast.Call) and isinstance(e.func, ast.Name) and e.func.id == 'memoryview' and len(e.args) == 1 and not e.keywords:
            a, t = self.pure(e.args[0])          # a read-only view of a bytes object: same bytes
            if t != 'bytes': self.fail('memoryview of ' + t, e)
            return a, 'bytes'
        if isinstance(e, ast.Call) and isinstance(e.func, ast.Name) and e.func.id == 'len' and len(e.args) == 1 and not e.keywords:
            a, t = self.pure(e.args[0])
            if t != 'bytes': self.fail('len of ' + t, e)
            return '(zlen %s)' % a, 'int'
        if isinstance(e, ast.Compare) and len(e.ops) == 1 and isinstance(e.ops[0], (ast.Gt, ast.Lt, ast.GtE, ast.LtE)):
            a, ta = self.pure(e.left); b, tb = self.pure(e.comparators[0])
            if ta != 'int' or tb != 'int': self.fail('comparison of %s and %s' % (ta, tb), e)
            op = {ast.Gt: '>?', ast.Lt: '<?', ast.GtE: '>=?', ast.LtE: '<=?'}[type(e.ops[0])]
            return '(%s %s %s)' % (a, op, b), 'bool'
        self.fail('expression outside the subset', e)

    def truth(self, e):
        """`if x:` — truthiness of an optional path"""
        a, t = self.pure(e)
        if t == 'bool': return a
        if t == 'optpath': return '(truthy_path %s)' % a
        if t == 'int': return '(negb (%s =? 0))' % a
        self.fail('truthiness of ' + t, e)

    # -------- effectful calls: returns (coq call text returning  W * ores T  , T, binder pattern builder)
    def call(self, c):
        """c: ast.Call.  Returns (text, kind, result_type) where kind is
             'world'  : text w : W * ores T
             'read'   : text w : ores T          (world not changed)
             'pure'   : text   : ores T
             'file'   : text   : fobj * ores T   (the file object variable is rebound)
        """
        fn = ast.unparse(c.func)
        def args(types, kw=()):
            if c.keywords and not kw: self.fail('keywords', c)
            if len(c.args) != len(types): self.fail('arity of ' + fn, c)
            out = []
            for a, want in zip(c.args, types):
                t, ty = self.pure(a)
                if ty != want and not (want == 'bytes' and ty == 'path'): self.fail('argument of type %s where %s is expected' % (ty, want), c)
                out.append(t)
            return out
        if fn == 'os.makedirs':
            a = args(['path', 'int'])
            return 'rt_makedirs rt %s %s w' % tuple(a), 'world', 'unit'
        if fn == 'ensure_tree':
            if len(c.args) == 1 and not c.keywords:
                a = args(['path'])
                return 'gen_ensure_tree %s default_mode w' % a[0], 'world', 'unit'
            a = args(['path', 'int'])
            return 'gen_ensure_tree %s %s w' % tuple(a), 'world', 'unit'
        if isinstance(c.func, ast.Name) and self.types.get(c.func.id) == 'remove':
            a = args(['path'])
            return '%s %s w' % (c.func.id, a[0]), 'world', 'unit'
        if fn == 'tempfile.mkstemp':
            if c.args: self.fail('mkstemp positional arguments', c)
            kw = {k.arg: k.value for k in c.keywords}
            if sorted(kw) != ['dir', 'prefix', 'suffix']: self.fail('mkstemp keywords', c)
            s, ts = self.pure(kw['suffix']); d, td = self.pure(kw['dir']); p, tp = self.pure(kw['prefix'])
            if ts != 'bytes' or tp != 'bytes' or td not in ('optpath',): self.fail('mkstemp argument types', c)
            return 'rt_mkstemp rt %s %s %s w' % (s, d, p), 'world', 'fdpath'
        if fn == 'os.write':
            a = args(['int', 'bytes'])
            return 'rt_write rt %s %s w' % tuple(a), 'world', 'int'
        if fn == 'os.close':
            a = args(['int'])
            return 'rt_close rt %s w' % a[0], 'world', 'unit'
        if fn == 'hashlib.new':
            a = args(['bytes'])
            return 'rt_hash_new rt %s' % a[0], 'pure', 'hash'
        if isinstance(c.func, ast.Attribute) and isinstance(c.func.value, ast.Name) and self.types.get(c.func.value.id) == 'hash' \
                and c.func.attr == 'hexdigest':
            args([])
            return 'rt_hexdigest rt %s' % c.func.value.id, 'pure', 'bytes'
        if fn == 'open':
            if len(c.args) != 2 or c.keywords or not (isinstance(c.args[1], ast.Constant) and c.args[1].value == 'rb'):
                self.fail("open(...) other than open(path, 'rb')", c)
            t, ty = self.pure(c.args[0])
            if ty != 'path': self.fail('open of ' + ty, c)
            return 'rt_open_rb rt %s w' % t, 'read', 'file'
        if isinstance(c.func, ast.Attribute) and isinstance(c.func.value, ast.Name) and self.types.get(c.func.value.id) == 'file':
            fp, meth = c.func.value.id, c.func.attr
            if meth == 'seek':
                a = args(['int', 'int'])
                return 'fseek %s %s %s' % (fp, a[0], a[1]), 'file:' + fp, 'int'
            if meth == 'read':
                if c.keywords or len(c.args) > 1: self.fail('read arguments', c)
                if c.args:
                    t, ty = self.pure(c.args[0])
                    if ty != 'int': self.fail('read size of type ' + ty, c)
                else:
                    t = '(-1)'
                return 'fread %s %s' % (fp, t), 'file:' + fp, 'bytes'
        return None

    def fresh(self, base):
        self.tmp += 1
        return '%s_%d' % (base, self.tmp)

    def bind(self, c, pat, ty_expected, k_ok, k_err=None):
        """Coq text: perform call c; on success bind the result to pattern `pat` and continue with k_ok();
           on failure propagate (k_err(errno_var) may handle OSError)."""
        r = self.call(c)
        if r is None: self.fail('call outside the subset', c)
        text, kind, ty = r
        if ty_expected is not None and ty != ty_expected: self.fail('result of type %s where %s is expected' % (ty, ty_expected), c)
        e = self.fresh('e')
        x = self.fresh('x')
        def prop_err(wv):
            if k_err is not None:
                return k_err(e)
            return self.leave(wv, 'OErr %s' % e)
        def prop_exn(wv):
            return self.leave(wv, 'OExn %s' % x)
        if kind == 'world':
            self.uses_world = True
            ok = k_ok()
            return ('match %s with\n| (w, OOk %s) =>\n%s\n| (w, OErr %s) => %s\n| (w, OExn %s) => %s\nend'
                    % (text, pat, ok, e, prop_err('w'), x, prop_exn('w')))
        if kind == 'read':
            self.uses_world = True
            ok = k_ok()
            return ('match %s with\n| OOk %s =>\n%s\n| OErr %s => %s\n| OExn %s => %s\nend'
                    % (text, pat, ok, e, prop_err('w'), x, prop_exn('w')))
        if kind == 'pure':
            ok = k_ok()
            return ('match %s with\n| OOk %s =>\n%s\n| OErr %s => %s\n| OExn %s => %s\nend'
                    % (text, pat, ok, e, prop_err('w'), x, prop_exn('w')))
        if kind.startswith('file:'):
            fp = kind[5:]
            ok = k_ok()
            return ('match %s with\n| (%s, OOk %s) =>\n%s\n| (%s, OErr %s) => %s\n| (%s, OExn %s) => %s\nend'
                    % (text, fp, pat, ok, fp, e, prop_err('w'), fp, x, prop_exn('w')))
        self.fail('call kind', c)

    def plain(self, wv, r):
        return '(%s, %s)' % (wv, r) if self.returns_world else r

    def leave(self, wv, r, hooks=None):
        """exceptional exit with outcome r: pending finally clauses run, loop results are wrapped"""
        t = self.plain(wv, r)
        for h in reversed(self.hooks if hooks is None else hooks):
            t = h(t)
        return t

    def ret(self, v):
        if self.hooks: self.fail('return inside try/finally or a loop')
        return self.plain('w', 'OOk %s' % v)

    def reraise(self, errno_var):
        return self.leave('w', 'OErr %s' % errno_var)

    # -------- statements (continuation-passing: k() yields the translation of what follows)
    def block(self, stmts, k):
        if not stmts:
            return k()
        s, rest = stmts[0], stmts[1:]
        nxt = lambda: self.block(rest, k)
        if isinstance(s, ast.Expr) and isinstance(s.value, ast.Constant) and isinstance(s.value.value, str):
            return nxt()
        if isinstance(s, ast.Pass):
            return nxt()
        if isinstance(s, ast.Expr) and isinstance(s.value, ast.Call):
            c = s.value
            fn = ast.unparse(c.func)
            if fn == 'time.sleep':
                # cooperative yield: only the literal 0 is accepted (no effect on the results)
                if len(c.args) == 1 and not c.keywords and isinstance(c.args[0], ast.Constant) and c.args[0].value == 0 \
                        and not isinstance(c.args[0].value, bool):
                    return nxt()
                self.fail('time.sleep with a non-zero argument', s)
            if isinstance(c.func, ast.Attribute) and isinstance(c.func.value, ast.Name) and self.types.get(c.func.value.id) == 'hash' \
                    and c.func.attr == 'update' and len(c.args) == 1 and not c.keywords:
                h = c.func.value.id
                a, t = self.pure(c.args[0])
                if t != 'bytes': self.fail('update argument', s)
                return 'let %s := rt_update rt %s %s in\n%s' % (h, h, a, nxt())
            return self.bind(c, '_', None, nxt)
        if isinstance(s, ast.Assign) and len(s.targets) == 1:
            tgt = s.targets[0]
            if isinstance(s.value, ast.Call) and self.call(s.value) is not None:
                text, kind, ty = self.call(s.value)
                if ty == 'fdpath':
                    if not (isinstance(tgt, ast.Tuple) and len(tgt.elts) == 2 and all(isinstance(x, ast.Name) for x in tgt.elts)):
                        self.fail('mkstemp result must be unpacked into two names', s)
                    a, b = tgt.elts[0].id, tgt.elts[1].id
                    def k_ok():
                        self.types[a] = 'int'; self.types[b] = 'path'
                        return nxt()
                    return self.bind(s.value, '(%s, %s)' % (a, b), 'fdpath', k_ok)
                if not isinstance(tgt, ast.Name): self.fail('assignment target', s)
                def k_ok():
                    self.settype(tgt.id, ty, s)
                    return nxt()
                return self.bind(s.value, tgt.id, ty, k_ok)
            if not isinstance(tgt, ast.Name): self.fail('assignment target', s)
            v_ = s.value
            if isinstance(v_, ast.Subscript) and isinstance(v_.slice, ast.Slice) and v_.slice.step is None and v_.slice.upper is None \
                    and isinstance(v_.slice.lower, ast.Call) and self.call(v_.slice.lower) is not None:
                # x = b[<call>:]   — b is evaluated before the call; the call does not modify it
                base, tb = self.pure(v_.value)
                if tb != 'bytes' or not isinstance(v_.value, ast.Name): self.fail('slice of ' + tb, s)
                n = self.fresh('n')
                def k_ok():
                    self.settype(tgt.id, 'bytes', s)
                    return 'let %s := zslice (Some %s) None %s in\n%s' % (tgt.id, n, base, nxt())
                return self.bind(v_.slice.lower, n, 'int', k_ok)
            v, ty = self.pure(s.value)
            self.settype(tgt.id, ty, s)
            return 'let %s := %s in\n%s' % (tgt.id, v, nxt())
        if isinstance(s, ast.If):
            for n in ast.walk(ast.Module(body=s.body + s.orelse, type_ignores=[])):
                if isinstance(n, (ast.Assign, ast.AugAssign, ast.Return)): self.fail('assignment/return inside if', n)
            if isinstance(s.test, ast.Name) and self.types.get(s.test.id) == 'optpath' and s.test.id not in self.narrow:
                # `if path:` — a non-empty string; inside the branch the name denotes that string
                name = s.test.id; v = name + '__s'
                saved = dict(self.types)
                self.narrow[name] = (v, 'path')
                def nxt_outside():       # what follows the `if` sees the un-narrowed variable again
                    sv = self.narrow.pop(name)
                    try: return nxt()
                    finally: self.narrow[name] = sv
                a = self.block(s.body, nxt_outside)
                del self.narrow[name]
                self.types = dict(saved)
                b = self.block(s.orelse, nxt)
                self.types = dict(saved)
                return ('match %s with\n| Some %s => if nonempty %s then (\n%s\n) else (\n%s\n)\n| None => (\n%s\n)\nend'
                        % (name, v, v, a, b, b))
            c = self.truth(s.test)
            saved = dict(self.types)
            a = self.block(s.body, nxt)
            self.types = dict(saved)
            b = self.block(s.orelse, nxt)
            self.types = dict(saved)
            return 'if %s then (\n%s\n) else (\n%s\n)' % (c, a, b)
        if isinstance(s, ast.Raise):
            if s.exc is not None or s.cause is not None or self.exc is None: self.fail('raise other than a bare re-raise in a handler', s)
            return self.reraise(self.exc[1])
        if isinstance(s, ast.Try):
            return self.try_(s, nxt)
        if isinstance(s, ast.With):
            if len(s.items) != 1 or not isinstance(s.items[0].context_expr, ast.Call) or not isinstance(s.items[0].optional_vars, ast.Name):
                self.fail('with shape', s)
            c = s.items[0].context_expr
            r = self.call(c)
            if r is None or r[2] != 'file': self.fail('with on something else than open(path, "rb")', s)
            fp = s.items[0].optional_vars.id
            d = self.fresh('data')
            def k_ok():
                self.settype(fp, 'file', s)
                return 'let %s := fopen %s in\n%s' % (fp, d, self.block(s.body, nxt))
            return self.bind(c, d, 'file', k_ok)
        if isinstance(s, ast.For):
            return self.for_(s, nxt)
        if isinstance(s, ast.While):
            return self.while_(s, nxt)
        if isinstance(s, ast.Return):
            if rest: self.fail('statements after return', s)
            self.saw_return = True
            if s.value is None: return self.ret('tt')
            if isinstance(s.value, ast.Tuple) and len(s.value.elts) == 2:
                # evaluation order left to right; each component a pure expression or one effectful call
                a, b = s.value.elts
                if isinstance(a, ast.Call) and self.call(a) is not None:
                    va = self.fresh('v')
                    def k_ok():
                        vb, tb = self.pure(b)
                        return self.ret('(%s, %s)' % (va, vb))
                    # b must not depend on the effect of a: only a plain local is accepted
                    if not isinstance(b, ast.Name): self.fail('tuple return: second component must be a local', s)
                    return self.bind(a, va, None, k_ok)
                va, ta = self.pure(a); vb, tb = self.pure(b)
                return self.ret('(%s, %s)' % (va, vb))
            if isinstance(s.value, ast.Call) and self.call(s.value) is not None:
                v = self.fresh('v')
                return self.bind(s.value, v, None, lambda: self.ret(v))
            v, t = self.pure(s.value)
            return self.ret(v)
        self.fail('statement outside the subset', s)

    def settype(self, name, ty, node):
        if name in self.types and self.types[name] != ty and not (self.types[name] == 'optpath' and ty == 'path'):
            self.fail('local %s changes type %s -> %s' % (name, self.types[name], ty), node)
        self.types[name] = ty

    def try_(self, s, nxt):
        if s.orelse: self.fail('try/else', s)
        if s.finalbody and not s.handlers:
            # try: <block>  finally: <one world call>.  The finally clause runs on every path out of the
            # block; an exception raised by it replaces the pending one.
            if len(s.finalbody) != 1: self.fail('try/finally shape', s)
            f = s.finalbody[0]
            if not (isinstance(f, ast.Expr) and isinstance(f.value, ast.Call) and self.call(f.value) is not None and self.call(f.value)[1] == 'world'):
                self.fail('finally body must be a single world call', s)
            for n in ast.walk(ast.Module(body=s.body, type_ignores=[])):
                if isinstance(n, (ast.Return, ast.Break, ast.Continue)): self.fail('return/break inside try/finally', n)
            if not self.returns_world: self.fail('try/finally in a read-only helper', s)
            ft = self.call(f.value)[0]
            self.uses_world = True
            outer = list(self.hooks)
            e2, x2 = self.fresh('e'), self.fresh('x')
            def fin(after):
                return ('match %s with\n| (w, OOk _) => %s\n| (w, OErr %s) => %s\n| (w, OExn %s) => %s\nend'
                        % (ft, after, e2, self.leave('w', 'OErr %s' % e2, outer), x2, self.leave('w', 'OExn %s' % x2, outer)))
            def k_body():                  # normal completion of the block: finally, then what follows the statement
                saved = self.hooks; self.hooks = outer
                try: inner = nxt()
                finally: self.hooks = saved
                return fin('(\n' + inner + ')')
            self.hooks = outer + [fin]
            try:
                return self.block(s.body, k_body)
            finally:
                self.hooks = outer
        if s.finalbody or len(s.handlers) != 1: self.fail('try shape', s)
        h = s.handlers[0]
        if not (isinstance(h.type, ast.Name) and h.type.id == 'OSError' and h.name): self.fail('handler other than `except OSError as <name>`', s)
        if len(s.body) != 1 or not (isinstance(s.body[0], ast.Expr) and isinstance(s.body[0].value, ast.Call)):
            self.fail('try body must be a single call statement', s)
        if self.exc is not None: self.fail('nested handlers', s)
        c = s.body[0].value
        def k_err(evar):
            self.exc = (h.name, evar)
            saved = dict(self.types)
            try:
                return '(\n' + self.block(h.body, nxt) + ')'
            finally:
                self.exc = None
                self.types = saved
        saved = dict(self.types)
        out = self.bind(c, '_', None, nxt, k_err)
        return out

    def for_(self, s, nxt):
        # for chunk in iter(lambda: f.read(n), b''):  <body: hash updates / time.sleep(0)>
        it = s.iter
        if s.orelse or not isinstance(s.target, ast.Name): self.fail('for shape', s)
        if not (isinstance(it, ast.Call) and ast.unparse(it.func) == 'iter' and len(it.args) == 2 and not it.keywords
                and isinstance(it.args[0], ast.Lambda) and not it.args[0].args.args and isinstance(it.args[0].body, ast.Call)):
            self.fail('for loop other than iter(lambda: f.read(n), sentinel)', s)
        sent, ts = self.pure(it.args[1])
        if ts != 'bytes': self.fail('sentinel type', s)
        r = self.call(it.args[0].body)
        if r is None or not r[1].startswith('file:') or r[2] != 'bytes': self.fail('loop callable is not a file read', s)
        fp = r[1][5:]
        var = s.target.id
        hashes = [n for n, t in self.types.items() if t == 'hash']
        if len(hashes) != 1: self.fail('loop needs exactly one hash object in scope', s)
        h = hashes[0]
        for n in ast.walk(ast.Module(body=s.body, type_ignores=[])):
            if isinstance(n, (ast.Break, ast.Continue, ast.Return, ast.Raise, ast.Assign, ast.AugAssign, ast.Try, ast.With, ast.For, ast.While, ast.If)):
                self.fail('control flow / assignment inside the loop body', n)
        used = {n.id for n in ast.walk(ast.Module(body=s.body + [ast.Expr(it)], type_ignores=[])) if isinstance(n, ast.Name)}
        free = [(n, t) for n, t in self.types.items() if n not in (fp, h) and n in used and t in ('int', 'bytes', 'path')]
        lname = 'gen_%s_loop' % self.fname
        sub = T(self.fname, list(self.types.items()) + [(var, 'bytes')])
        sub.returns_world = False
        params = ''.join(' (%s : %s)' % (n, COQTY[t]) for n, t in free)
        callargs = ''.join(' ' + n for n, _ in free)
        body = sub.block(s.body, lambda: '%s fuel__%s %s %s' % (lname, callargs, fp, h))
        e, x = self.fresh('e'), self.fresh('x')
        self.aux.append(
            'Fixpoint %s (fuel_ : nat)%s (%s : fobj) (%s : H) {struct fuel_} : option (ores (fobj * H)) :=\n'
            '  match fuel_ with O => None | S fuel__ =>\n'
            '  match %s with\n'
            '  | (%s, OOk %s) => if beq %s %s then Some (OOk (%s, %s)) else (\n%s)\n'
            '  | (%s, OErr %s) => Some (OErr %s)\n'
            '  | (%s, OExn %s) => Some (OExn %s)\n'
            '  end end.\n' % (lname, params, fp, h, r[0], fp, var, var, sent, fp, h, body, fp, e, e, fp, x, x))
        self.uses_loop = True
        e2, x2 = self.fresh('e'), self.fresh('x')
        err = lambda t: self.leave('w', t)
        return ('match %s (loop_fuel %s)%s %s %s with\n| None => %s\n| Some (OOk (%s, %s)) =>\n%s\n| Some (OErr %s) => %s\n| Some (OExn %s) => %s\nend'
                % (lname, fp, callargs, fp, h, err('OExn OtherError'), fp, h, nxt(), e2, err('OErr %s' % e2), x2, err('OExn %s' % x2)))

    def while_(self, s, nxt):
        # while len(v): <body>      v: bytes, made shorter by the body (fuel: S (length v))
        if s.orelse: self.fail('while/else', s)
        if not self.returns_world: self.fail('while loop in a read-only helper', s)
        t = s.test
        if isinstance(t, ast.Compare) and len(t.ops) == 1 and isinstance(t.ops[0], (ast.Gt, ast.NotEq)) \
                and isinstance(t.comparators[0], ast.Constant) and t.comparators[0].value == 0:
            lenexpr = t.left
        else:
            lenexpr = t
        if not (isinstance(lenexpr, ast.Call) and isinstance(lenexpr.func, ast.Name) and lenexpr.func.id == 'len'
                and len(lenexpr.args) == 1 and isinstance(lenexpr.args[0], ast.Name) and self.types.get(lenexpr.args[0].id) == 'bytes'):
            self.fail('while condition other than len(<bytes>)', s)
        measured = lenexpr.args[0].id
        # len(v), len(v) > 0 and len(v) != 0 are the same test (a length is never negative): one canonical form
        cond = '(negb ((zlen %s) =? 0))' % measured
        for n in ast.walk(ast.Module(body=s.body, type_ignores=[])):
            if isinstance(n, (ast.Break, ast.Continue, ast.Return, ast.Raise, ast.Try, ast.With, ast.For, ast.While, ast.If, ast.AugAssign)):
                self.fail('control flow inside the while body', n)
        state = []
        for n in ast.walk(ast.Module(body=s.body, type_ignores=[])):
            if isinstance(n, ast.Assign):
                if len(n.targets) != 1 or not isinstance(n.targets[0], ast.Name): self.fail('assignment target in loop', n)
                nm = n.targets[0].id
                if nm not in self.types: self.fail('loop body binds a new name ' + nm, n)
                if nm not in state: state.append(nm)
        if measured not in state: self.fail('the measured variable is not updated by the loop', s)
        used = {n.id for n in ast.walk(ast.Module(body=s.body + [ast.Expr(t)], type_ignores=[])) if isinstance(n, ast.Name)}
        free = [(n, ty) for n, ty in self.types.items() if n in used and n not in state and ty in ('int', 'bytes', 'path')]
        st = [(n, self.types[n]) for n in state]
        if any(ty not in ('int', 'bytes') for _, ty in st): self.fail('loop state type', s)
        lname = 'gen_%s_wloop' % self.fname
        sub = T(self.fname, list(self.types.items()))
        sub.returns_world = True
        sub.hooks = [lambda x: 'Some %s' % x]
        args = ''.join(' ' + n for n, _ in free + st)
        body = sub.block(s.body, lambda: '%s fuel__%s w' % (lname, args))
        params = ''.join(' (%s : %s)' % (n, COQTY[ty]) for n, ty in free + st)
        fix = ('Fixpoint %s (fuel_ : nat)%s (w : W) {struct fuel_} : option (W * ores unit) :=\n'
               '  match fuel_ with O => None | S fuel__ =>\n'
               '  if %s then (\n%s)\n  else Some (w, OOk tt) end.\n' % (lname, params, cond, body))
        if sub.aux: self.fail('nested loops', s)
        # the continuation is duplicated into several branches: emit the loop once; a second, different loop fails closed
        if any(a.startswith('Fixpoint %s ' % lname) and a != fix for a in self.aux): self.fail('two different while loops', s)
        if fix not in self.aux: self.aux.append(fix)
        self.uses_world = True
        e, x = self.fresh('e'), self.fresh('x')
        none = self.leave('w', 'OExn OtherError'); er = self.leave('w', 'OErr %s' % e); ex = self.leave('w', 'OExn %s' % x)
        for n in state: del self.types[n]          # their final values are not returned by the loop: later uses fail closed
        return ('match %s (S (length %s))%s w with\n| None => %s\n| Some (w, OOk _) =>\n%s\n| Some (w, OErr %s) => %s\n| Some (w, OExn %s) => %s\nend'
                % (lname, measured, args, none, nxt(), e, er, x, ex))

COQTY = {'path': 'bytes', 'bytes': 'bytes', 'int': 'Z', 'optpath': 'option bytes', 'remove': 'bytes -> W -> W * ores unit'}

# the calls each helper is expected to make (callee as written; `X.m` with X a local file/hash object is listed as `.m`).
# The statement translator refuses every call it has no rule for anyway; this table pins the SET, so that a helper that starts
# calling something else (an encoder, a normaliser, another helper of the package) — or stops calling something — falls back
# even if a rule for that callee exists.
EXPECTED_CALLS = {
    'ensure_tree': {'os.makedirs', 'os.path.isdir'},
    'delete_if_exists': {'remove'},
    'write_to_tempfile': {'ensure_tree', 'tempfile.mkstemp', 'memoryview', 'len', 'os.write', 'os.close'},
    'compute_file_checksum': {'hashlib.new', 'open', 'iter', '.read', '.update', 'time.sleep', '.hexdigest'},
    'last_bytes': {'open', '.seek', '.tell', '.read'},
}

def call_set(node):
    params = {a.arg for a in node.args.args}
    out = set()
    for n in ast.walk(node):
        if isinstance(n, ast.Call):
            f = n.func
            if isinstance(f, ast.Attribute) and isinstance(f.value, ast.Name) and f.value.id not in ('os', 'errno', 'tempfile', 'hashlib', 'time') \
                    and f.value.id not in params:
                out.add('.' + f.attr)          # method of a local object (file object, hash object)
            else:
                out.add(ast.unparse(f))
    return out

def translate(tree, fname, params, returns_world, rty):
    node = find_def(tree, fname)
    got = call_set(node)
    if got != EXPECTED_CALLS[fname]:
        raise GenError('%s: the set of calls changed: unexpected %s, missing %s'
                       % (fname, sorted(got - EXPECTED_CALLS[fname]), sorted(EXPECTED_CALLS[fname] - got)))
    if [a.arg for a in node.args.args] != [p for p, _ in params]:
        raise GenError('%s: parameter list changed' % fname)
    if node.args.vararg or node.args.kwarg or node.args.kwonlyargs or node.decorator_list:
        raise GenError('%s: varargs/decorators' % fname)
    t = T(fname, params)
    t.returns_world = returns_world
    t.saw_return = False
    body = t.block(node.body, lambda: t.ret('tt'))
    args = ''.join(' (%s : %s)' % (p, COQTY[ty]) for p, ty in params)
    res = ('W * ores (%s)' if returns_world else 'ores (%s)') % rty
    return ''.join(t.aux) + 'Definition gen_%s%s (w : W) : %s :=\n%s.\n' % (fname, args, res, body)

def generate_code():
    failclosed.check_all(FAILCLOSED['generate_code'])
    tree = repo_ast(SRC)
    repo_import('oslo_utils.fileutils')
    out = [HEADER % (SRC, 'tools/gen/gen_C20.py (statement-level translation)')]
    out.append('Require Import OV.Base.Bytes OV.Base.Py OV.Gen.C20_Consts OV.Model.C20_OS.')
    out.append('Open Scope Z_scope.')
    out.append('Section C20Gen.')
    out.append('Context {W H : Type} (rt : runtime W H).')
    out.append(translate(tree, 'ensure_tree', [('path', 'path'), ('mode', 'int')], True, 'unit'))
    out.append(translate(tree, 'delete_if_exists', [('path', 'path'), ('remove', 'remove')], True, 'unit'))
    out.append(translate(tree, 'write_to_tempfile', [('content', 'bytes'), ('path', 'optpath'), ('suffix', 'bytes'), ('prefix', 'bytes')], True, 'bytes'))
    out.append(translate(tree, 'compute_file_checksum', [('path', 'path'), ('read_chunksize', 'int'), ('algorithm', 'bytes')], False, 'bytes'))
    out.append(translate(tree, 'last_bytes', [('path', 'path'), ('num', 'int')], False, 'bytes * Z'))
    out.append('End C20Gen.')
    return '\n'.join(out) + '\n'

if __name__ == '__main__':
    import sys
    sys.stdout.write(generate_consts()); sys.stdout.write(generate_code())
