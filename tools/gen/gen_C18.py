"""Gen/C18_SpecsMatcher.v from oslo_utils/specs_matcher.py (+ two constants of the installed pyparsing).

What is read, all from the AST of the source text (fail-closed: any shape outside the
templates below raises GenError and the run continues on the committed baseline copy):

  make_grammar   every assignment is evaluated symbolically into a grammar term
                 (Literal strings, `|` chains in SOURCE order, `+` sequences, `~`, OneOrMore,
                 Regex pattern); the five alternatives of `expr` are classified by SHAPE
                 (not by variable name) and emitted in source order; the parse action of the
                 disjunction (head literal, slice start/step); the regex through CPython's
                 own regex parser (tools/gen/regex_tr.py)
  op_methods     keys in dict order; for each value: `lambda x, y: float(x) OP float(y)`,
                 `operator.OP`, `lambda x, y: y in x`, `lambda x, *y: any(x == a for a in y)`,
                 or the name of `_all_in` / `_range_in`
  _range_in      argument count, operand indices, the order guard, the two bracket tables
  _all_in, match compared statement by statement with the text the hand model was written from
  pyparsing      ParserElement.DEFAULT_WHITE_CHARS (the characters skipped before each element)
"""
import ast
from common import *
import regex_tr
import failclosed

SRC = 'oslo_utils/specs_matcher.py'
# the four functions: one undecorated definition each, bound to its name at run time; op_methods (read as a dict LITERAL) assigned once
# and never mutated; pyparsing / ast / operator the real modules (tools/gen/failclosed.py)
_NOD = {'defaults': {}}
FAILCLOSED = {'generate': [{'src': SRC, 'mod': 'oslo_utils.specs_matcher',
    'functions': {'make_grammar': _NOD, '_all_in': _NOD, '_range_in': _NOD, 'match': _NOD},
    'constants': {'op_methods': {'evaluate': False}},
    'imports': {'pyparsing': 'pyparsing', 'ast': 'ast', 'operator': 'operator'}}]}

CMP = {ast.Lt: 'CLt', ast.LtE: 'CLe', ast.Eq: 'CEq', ast.NotEq: 'CNe', ast.GtE: 'CGe', ast.Gt: 'CGt'}
OPERATOR_ATTR = {'lt': 'CLt', 'le': 'CLe', 'eq': 'CEq', 'ne': 'CNe', 'ge': 'CGe', 'gt': 'CGt'}


def need(cond, msg):
    if not cond:
        raise GenError(msg)


def src(node):
    return ast.unparse(node)


# ------------------------------------------------------------------ make_grammar

def _is_pp(node, attr):
    return (isinstance(node, ast.Attribute) and isinstance(node.value, ast.Name)
            and node.value.id == 'pyparsing' and node.attr == attr)


def ev(node, env):
    """symbolic value of a grammar expression: nested tuples"""
    if isinstance(node, ast.Name):
        need(node.id in env, 'make_grammar: unknown name %s' % node.id)
        return env[node.id]
    if isinstance(node, ast.Call) and not node.keywords and len(node.args) == 1:
        a = node.args[0]
        if _is_pp(node.func, 'Literal'):
            need(isinstance(a, ast.Constant) and isinstance(a.value, str) and a.value != '', 'Literal argument')
            return ('lit', a.value)
        if _is_pp(node.func, 'Regex'):
            need(isinstance(a, ast.Constant) and isinstance(a.value, str), 'Regex argument')
            return ('re', a.value)
        if _is_pp(node.func, 'OneOrMore'):
            return ('plus', ev(a, env))
    if isinstance(node, ast.BinOp) and isinstance(node.op, ast.BitOr):
        l, r = ev(node.left, env), ev(node.right, env)
        flat = []
        for x in (l, r):
            flat += list(x[1]) if x[0] == 'alt' else [x]
        return ('alt', tuple(flat))
    if isinstance(node, ast.BinOp) and isinstance(node.op, ast.Add):
        l, r = ev(node.left, env), ev(node.right, env)
        # keep the nesting of `+`: only the LEFT spine is flattened (a + b + c), a named
        # sub-sequence on the right (the atom) stays one element
        return ('seq', (tuple(l[1]) if (l[0] == 'seq' and isinstance(node.left, ast.BinOp)) else (l,)) + (r,))
    if isinstance(node, ast.UnaryOp) and isinstance(node.op, ast.Invert):
        return ('not', ev(node.operand, env))
    raise GenError('make_grammar: unsupported expression %s' % src(node)[:80])


def lits_of(term, what):
    if term[0] == 'lit':
        return [term[1]]
    need(term[0] == 'alt' and all(x[0] == 'lit' for x in term[1]), '%s: not an alternation of Literals' % what)
    return [x[1] for x in term[1]]


def grammar():
    tree = repo_ast(SRC)
    f = find_def(tree, 'make_grammar')
    body = list(f.body)
    if body and isinstance(body[0], ast.Expr) and isinstance(body[0].value, ast.Constant):
        body = body[1:]
    env, action, ret = {}, None, None
    for st in body:
        if isinstance(st, ast.Assign):
            need(len(st.targets) == 1 and isinstance(st.targets[0], ast.Name), 'make_grammar: assignment target')
            need(ret is None, 'make_grammar: statement after return')
            env[st.targets[0].id] = ev(st.value, env)
        elif isinstance(st, ast.Expr) and isinstance(st.value, ast.Call):
            c = st.value
            need(isinstance(c.func, ast.Attribute) and c.func.attr in ('setParseAction', 'set_parse_action')
                 and isinstance(c.func.value, ast.Name) and len(c.args) == 1 and not c.keywords
                 and action is None, 'make_grammar: unexpected call %s' % src(c)[:60])
            action = (c.func.value.id, c.args[0])
        elif isinstance(st, ast.Return):
            need(isinstance(st.value, ast.Name) and st.value.id in env, 'make_grammar: return')
            ret = env[st.value.id]
        else:
            raise GenError('make_grammar: unsupported statement %s' % src(st)[:60])
    need(ret is not None, 'make_grammar: no return')

    # the atom: ~(literals) + Regex
    def is_atom(t):
        return (t[0] == 'seq' and len(t[1]) == 2 and t[1][0][0] == 'not' and t[1][1][0] == 're')
    atoms = {v for v in env.values() if is_atom(v)}
    need(len(atoms) == 1, 'make_grammar: expected exactly one atom definition (~(...) + Regex)')
    atom = atoms.pop()
    stop = lits_of(atom[1][0][1], 'atom look-ahead')
    pattern = atom[1][1][1]

    def classify(t):
        if t == atom:
            return ('AAtom',)
        if t[0] == 'plus' and t[1][0] == 'seq' and len(t[1][1]) == 2 and t[1][1][0][0] == 'lit' and t[1][1][1] == atom:
            return ('ADisj', t[1][1][0][1])
        if t[0] == 'seq' and len(t[1]) == 2 and t[1][0][0] == 'lit' and t[1][1] == ('plus', atom):
            return ('ANary', t[1][0][1])
        if t[0] == 'seq' and len(t[1]) == 2 and t[1][0][0] == 'alt' and t[1][1] == atom:
            return ('AUnary', lits_of(t[1][0], 'unary operators'))
        if t[0] == 'seq' and len(t[1]) >= 3 and t[1][0][0] == 'lit' and all(x == atom for x in t[1][1:]):
            return ('ARange', t[1][0][1], len(t[1]) - 1)
        raise GenError('make_grammar: alternative of unknown shape')
    need(ret[0] == 'alt', 'make_grammar: the returned expression is not a `|` chain')
    alts = [classify(t) for t in ret[1]]
    kinds = [a[0] for a in alts]
    need(len(set(kinds)) == len(kinds), 'make_grammar: an alternative occurs twice')
    by = {a[0]: a for a in alts}
    for k in ('ADisj', 'ANary', 'AUnary', 'ARange'):
        if k not in by:   # not in the returned chain: take the definition if there is one, to keep the file well-formed
            for v in env.values():
                try:
                    c = classify(v)
                except GenError:
                    continue
                if c[0] == k:
                    by[k] = c
        need(k in by, 'make_grammar: no %s definition' % k)

    # parse action of the disjunction: lambda _s, _l, t: [HEAD] + t[START::STEP]
    need(action is not None, 'make_grammar: no parse action')
    tgt, lam = action
    need(tgt in env and classify(env[tgt])[0] == 'ADisj', 'make_grammar: parse action is not on the disjunction')
    ok = (isinstance(lam, ast.Lambda) and len(lam.args.args) == 3 and not lam.args.vararg and not lam.args.kwarg
          and isinstance(lam.body, ast.BinOp) and isinstance(lam.body.op, ast.Add)
          and isinstance(lam.body.left, ast.List) and len(lam.body.left.elts) == 1
          and isinstance(lam.body.left.elts[0], ast.Constant) and isinstance(lam.body.left.elts[0].value, str)
          and isinstance(lam.body.right, ast.Subscript) and isinstance(lam.body.right.value, ast.Name)
          and lam.body.right.value.id == lam.args.args[2].arg and isinstance(lam.body.right.slice, ast.Slice))
    need(ok, 'make_grammar: parse action is not `lambda s, l, t: [LIT] + t[a::b]`')
    sl = lam.body.right.slice
    def cint(n, default):
        if n is None:
            return default
        need(isinstance(n, ast.Constant) and isinstance(n.value, int) and not isinstance(n.value, bool) and n.value >= 0, 'parse action slice bound')
        return n.value
    need(sl.upper is None, 'parse action slice has an upper bound')
    start, step = cint(sl.lower, 0), cint(sl.step, 1)
    need(step >= 1, 'parse action slice step')
    return {
        'unary': by['AUnary'][1], 'or': by['ADisj'][1], 'all_in': by['ANary'][1], 'range_in': by['ARange'][1],
        'range_arity': by['ARange'][2], 'stop': stop, 'pattern': pattern, 'alts': kinds,
        'act_head': lam.body.left.elts[0].value, 'act_start': start, 'act_step': step,
    }


# ------------------------------------------------------------------ op_methods

def op_methods():
    tree = repo_ast(SRC)
    d = None
    for n in tree.body:
        if isinstance(n, ast.Assign) and len(n.targets) == 1 and isinstance(n.targets[0], ast.Name) and n.targets[0].id == 'op_methods':
            d = n.value
    need(isinstance(d, ast.Dict), 'op_methods: dict literal not found')
    out = []
    for k, v in zip(d.keys, d.values):
        need(isinstance(k, ast.Constant) and isinstance(k.value, str), 'op_methods: key')
        out.append((k.value, method(v)))
    need(len({k for k, _ in out}) == len(out), 'op_methods: duplicate key')
    return out


def _float_of(n, name):
    return (isinstance(n, ast.Call) and isinstance(n.func, ast.Name) and n.func.id == 'float' and len(n.args) == 1
            and not n.keywords and isinstance(n.args[0], ast.Name) and n.args[0].id == name)


def method(v):
    if isinstance(v, ast.Name):
        if v.id == '_all_in': return 'MAllIn'
        if v.id == '_range_in': return 'MRangeIn'
    if isinstance(v, ast.Attribute) and isinstance(v.value, ast.Name) and v.value.id == 'operator' and v.attr in OPERATOR_ATTR:
        return '(MStr %s)' % OPERATOR_ATTR[v.attr]
    if isinstance(v, ast.Lambda):
        a = v.args
        plain = not (a.kwonlyargs or a.kwarg or a.defaults or a.posonlyargs)
        names = [x.arg for x in a.args]
        b = v.body
        if plain and a.vararg is None and len(names) == 2:
            x, y = names
            if (isinstance(b, ast.Compare) and len(b.ops) == 1 and type(b.ops[0]) in CMP
                    and _float_of(b.left, x) and _float_of(b.comparators[0], y)):
                return '(MNum %s)' % CMP[type(b.ops[0])]
            if (isinstance(b, ast.Compare) and len(b.ops) == 1 and isinstance(b.ops[0], ast.In)
                    and isinstance(b.left, ast.Name) and b.left.id == y
                    and isinstance(b.comparators[0], ast.Name) and b.comparators[0].id == x):
                return 'MIn'
        if plain and a.vararg is not None and len(names) == 1:
            x, y = names[0], a.vararg.arg
            if src(b) in ('any((%s == a for a in %s))' % (x, y), 'any((a == %s for a in %s))' % (x, y)):
                return 'MOr'
    raise GenError('op_methods: unsupported method %s' % src(v)[:80])


# ------------------------------------------------------------------ _range_in, _all_in, match

def body_of(tree, name):
    f = find_def(tree, name)
    b = list(f.body)
    if b and isinstance(b[0], ast.Expr) and isinstance(b[0].value, ast.Constant):
        b = b[1:]
    return f, b


def is_raise_typeerror(st):
    return (isinstance(st, ast.Raise) and isinstance(st.exc, ast.Call) and isinstance(st.exc.func, ast.Name)
            and st.exc.func.id == 'TypeError')


def range_in():
    tree = repo_ast(SRC)
    f, b = body_of(tree, '_range_in')
    need(src(f.args) == 'x, *y', '_range_in: signature')
    need(len(b) == 9, '_range_in: statement count')
    need(src(b[0]) == 'x = ast.literal_eval(x)', '_range_in: literal_eval')
    t = b[1]
    need(isinstance(t, ast.If) and not t.orelse and len(t.body) == 1 and is_raise_typeerror(t.body[0])
         and isinstance(t.test, ast.Compare) and src(t.test.left) == 'len(y)' and isinstance(t.test.ops[0], ast.NotEq)
         and isinstance(t.test.comparators[0], ast.Constant) and isinstance(t.test.comparators[0].value, int),
         '_range_in: arity check')
    nargs = t.test.comparators[0].value
    need(src(b[2]) == 'num_x = float(x)', '_range_in: num_x')
    def idx(st, name):
        need(isinstance(st, ast.Assign) and src(st.targets[0]) == name and isinstance(st.value, ast.Call)
             and src(st.value.func) == 'float' and len(st.value.args) == 1 and isinstance(st.value.args[0], ast.Subscript)
             and src(st.value.args[0].value) == 'y' and isinstance(st.value.args[0].slice, ast.Constant)
             and isinstance(st.value.args[0].slice.value, int) and st.value.args[0].slice.value >= 0, '_range_in: ' + name)
        return st.value.args[0].slice.value
    iy, iz = idx(b[3], 'num_y'), idx(b[4], 'num_z')
    g = b[5]
    need(isinstance(g, ast.If) and not g.orelse and len(g.body) == 1 and is_raise_typeerror(g.body[0])
         and isinstance(g.test, ast.Compare) and len(g.test.ops) == 1 and type(g.test.ops[0]) in CMP
         and src(g.test.left) == 'num_y' and src(g.test.comparators[0]) == 'num_z', '_range_in: order guard')
    guard = CMP[type(g.test.ops[0])]
    def table(st, var, other):
        """if y[i] == A: var = num_x OP other elif y[i] == B: ... else: raise TypeError"""
        rows, index = [], None
        while True:
            need(isinstance(st, ast.If) and isinstance(st.test, ast.Compare) and len(st.test.ops) == 1
                 and isinstance(st.test.ops[0], ast.Eq) and isinstance(st.test.left, ast.Subscript)
                 and src(st.test.left.value) == 'y' and isinstance(st.test.left.slice, ast.Constant)
                 and isinstance(st.test.left.slice.value, int) and st.test.left.slice.value >= 0
                 and isinstance(st.test.comparators[0], ast.Constant) and isinstance(st.test.comparators[0].value, str),
                 '_range_in: bracket test for ' + var)
            i = st.test.left.slice.value
            need(index in (None, i), '_range_in: bracket index')
            index = i
            need(len(st.body) == 1 and isinstance(st.body[0], ast.Assign) and src(st.body[0].targets[0]) == var
                 and isinstance(st.body[0].value, ast.Compare) and len(st.body[0].value.ops) == 1
                 and type(st.body[0].value.ops[0]) in CMP and src(st.body[0].value.left) == 'num_x'
                 and src(st.body[0].value.comparators[0]) == other, '_range_in: bound comparison for ' + var)
            rows.append((st.test.comparators[0].value, CMP[type(st.body[0].value.ops[0])]))
            need(len(st.orelse) == 1, '_range_in: else branch for ' + var)
            if isinstance(st.orelse[0], ast.If):
                st = st.orelse[0]
            else:
                need(is_raise_typeerror(st.orelse[0]), '_range_in: else branch for ' + var)
                break
        return index, rows
    il, lower = table(b[6], 'lower', 'num_y')
    iu, upper = table(b[7], 'upper', 'num_z')
    need(src(b[8]) == 'return lower and upper', '_range_in: return')
    need(max(iy, iz, il, iu) < nargs, '_range_in: index beyond the checked arity')
    return {'nargs': nargs, 'iy': iy, 'iz': iz, 'guard': guard, 'il': il, 'lower': lower, 'iu': iu, 'upper': upper}


ALL_IN_TEMPLATE = ['x = ast.literal_eval(x)', 'if not isinstance(x, list):\n    raise TypeError(MSG)',
                   'return all((val in x for val in y))']
MATCH_TEMPLATE = ['expr = make_grammar()',
                  'try:\n    tree = expr.parseString(spec)\nexcept pyparsing.ParseException:\n    tree = [spec]',
                  'if len(tree) == 1:\n    return tree[0] == cmp_value',
                  'compare_func = op_methods[tree[0]]',
                  'return compare_func(cmp_value, *tree[1:])']


class _Msg(ast.NodeTransformer):
    """replace the argument of every `raise X(<message>)` by the name MSG"""
    def visit_Raise(self, n):
        if isinstance(n.exc, ast.Call):
            n.exc.args = [ast.Name('MSG', ast.Load())]
        return n


def check_templates():
    tree = repo_ast(SRC)
    f, b = body_of(tree, '_all_in')
    need(src(f.args) == 'x, *y', '_all_in: signature')
    got = [src(_Msg().visit(st)) for st in b]
    need(got == ALL_IN_TEMPLATE, '_all_in: body differs from the modelled text')
    f, b = body_of(tree, 'match')
    need(src(f.args) == 'cmp_value, spec', 'match: signature')
    got = [src(st) for st in b]
    got = [g.replace('expr.parse_string(spec)', 'expr.parseString(spec)') for g in got]
    need(got == MATCH_TEMPLATE, 'match: body differs from the modelled text')


# ------------------------------------------------------------------ no hidden state

FUNCS = ('make_grammar', 'match', '_all_in', '_range_in')
ALLOWED_GLOBALS = {'pyparsing', 'ast', 'operator', 'op_methods', 'make_grammar', '_all_in', '_range_in'}
ALLOWED_BUILTINS = {'float', 'len', 'isinstance', 'list', 'all', 'any', 'TypeError'}
ALLOWED_IMPORTS = {'ast', 'operator', 'pyparsing'}


def _local_names(fn):
    a = fn.args
    names = {x.arg for x in list(a.posonlyargs) + list(a.args) + list(a.kwonlyargs)}
    names |= {x.arg for x in (a.vararg, a.kwarg) if x is not None}
    body = fn.body if isinstance(fn.body, list) else [fn.body]
    for st in body:
        for n in ast.walk(st):
            if isinstance(n, ast.Name) and isinstance(n.ctx, ast.Store):
                names.add(n.id)
            elif isinstance(n, ast.arg):
                names.add(n.arg)
            elif isinstance(n, ast.ExceptHandler) and n.name:
                names.add(n.name)
    return names


def check_no_state():
    """match / make_grammar / _all_in / _range_in and the op_methods lambdas are functions of their arguments:
    they read no module-level or thread-local name beyond the modules, op_methods and each other, bind only plain
    local names (no `global`, no attribute / subscript stores, no imports, no nested definitions), and the module
    itself consists of the imports, the four definitions and the op_methods table and nothing else (no module-level
    call that could configure pyparsing, no cache object)."""
    tree = repo_ast(SRC)
    seen = []
    for st in tree.body:
        if isinstance(st, ast.Expr) and isinstance(st.value, ast.Constant) and isinstance(st.value.value, str):
            continue
        if isinstance(st, ast.Import):
            need(all(a.asname is None and a.name in ALLOWED_IMPORTS for a in st.names),
                 'module level: unexpected import %s' % src(st))
            continue
        if isinstance(st, ast.FunctionDef) and st.name in FUNCS:
            seen.append(st); continue
        if (isinstance(st, ast.Assign) and len(st.targets) == 1 and isinstance(st.targets[0], ast.Name)
                and st.targets[0].id == 'op_methods' and isinstance(st.value, ast.Dict)):
            seen.append(st); continue
        raise GenError('module level: statement outside the modelled module (line %d): %s' % (st.lineno, src(st)[:60]))
    units = [st for st in seen if isinstance(st, ast.FunctionDef)]
    for st in seen:
        if isinstance(st, ast.Assign):
            units += [v for v in st.value.values if isinstance(v, ast.Lambda)]
    for fn in units:
        what = getattr(fn, 'name', 'op_methods lambda (line %d)' % fn.lineno)
        local = _local_names(fn)
        body = fn.body if isinstance(fn.body, list) else [fn.body]
        for st in body:
            for n in ast.walk(st):
                if isinstance(n, (ast.Global, ast.Nonlocal)):
                    raise GenError('%s: global / nonlocal declaration' % what)
                if isinstance(n, (ast.Import, ast.ImportFrom, ast.FunctionDef, ast.AsyncFunctionDef, ast.ClassDef, ast.NamedExpr)):
                    raise GenError('%s: %s inside the function' % (what, type(n).__name__))
                if isinstance(n, (ast.Attribute, ast.Subscript)) and isinstance(n.ctx, (ast.Store, ast.Del)):
                    raise GenError('%s: stores into %s (state outside the call)' % (what, src(n)[:50]))
                if isinstance(n, ast.Name) and isinstance(n.ctx, ast.Del):
                    raise GenError('%s: del %s' % (what, n.id))
                if isinstance(n, ast.Name) and isinstance(n.ctx, ast.Load) and n.id not in local:
                    if n.id not in ALLOWED_GLOBALS and n.id not in ALLOWED_BUILTINS:
                        raise GenError('%s: reads the non-local name %s' % (what, n.id))
        # a local must not shadow a module / table name the model resolves globally
        clash = local & (ALLOWED_GLOBALS | ALLOWED_BUILTINS)
        need(not clash, '%s: local name shadows %s' % (what, sorted(clash)))


# ------------------------------------------------------------------ emit

def coq_strs(l):
    return '[' + '; '.join(lit(s) for s in l) + ']'


def generate():
    failclosed.check_all(FAILCLOSED['generate'])
    check_no_state()
    repo_import('oslo_utils.specs_matcher')          # the module must come from the checked repository
    import pyparsing
    g = grammar()
    ops = op_methods()
    r = range_in()
    check_templates()
    white = pyparsing.ParserElement.DEFAULT_WHITE_CHARS
    need(isinstance(white, str) and white != '', 'pyparsing DEFAULT_WHITE_CHARS')
    try:
        atom_re, width = regex_tr.regex_to_coq(g['pattern'], 0)
    except regex_tr.Unsupported as e:
        raise GenError('atom regex: %s' % e)
    import re as _re
    m = _re.fullmatch(r'\(Rep (\[[0-9;,()]*\]) (\d+)%nat None\)', atom_re)
    need(m is not None, 'atom regex is not an unbounded repeat of one character class')
    out = [HEADER % (SRC, 'tools/gen/gen_C18.py')]
    out.append('Require Import OV.Base.Bytes OV.Base.PyInt OV.Base.Regex.')
    out.append('Open Scope N_scope.')
    out.append('(* pyparsing.ParserElement.DEFAULT_WHITE_CHARS of the installed pyparsing %s *)' % pyparsing.__version__)
    out.append('Definition pp_white : list N := %s.' % lit(white))
    out.append('(* make_grammar: Literal strings in source order *)')
    out.append('Definition unary_lits : list str := %s.' % coq_strs(g['unary']))
    out.append('Definition all_in_lit : str := %s.' % lit(g['all_in']))
    out.append('Definition or_lit : str := %s.' % lit(g['or']))
    out.append('Definition range_in_lit : str := %s.' % lit(g['range_in']))
    out.append('Definition range_arity : nat := %d%%nat.' % g['range_arity'])
    out.append('(* the literals of the negative look-ahead of an atom, in source order *)')
    out.append('Definition atom_stop_lits : list str := %s.' % coq_strs(g['stop']))
    out.append('(* Regex(%r): character class and minimum count of the repeat *)' % g['pattern'])
    out.append('Definition atom_cs : cset := %s.' % m.group(1).replace(';', '; '))
    out.append('Definition atom_min : nat := %s%%nat.' % m.group(2))
    out.append('Definition atom_re : re := Rep atom_cs atom_min None.')
    out.append('(* expr = ... | ... : the alternatives in source order *)')
    out.append('Inductive alt := ADisj | ANary | ARange | AUnary | AAtom.')
    out.append('Definition expr_alts : list alt := [%s].' % '; '.join(g['alts']))
    out.append('(* disjunction.setParseAction(lambda _s, _l, t: [HEAD] + t[START::STEP]) *)')
    out.append('Definition disj_head : str := %s.' % lit(g['act_head']))
    out.append('Definition disj_start : nat := %d%%nat.' % g['act_start'])
    out.append('Definition disj_step : nat := %d%%nat.' % g['act_step'])
    out.append('(* op_methods *)')
    out.append('Inductive cmp := CLt | CLe | CEq | CNe | CGe | CGt.')
    out.append('Inductive meth := MNum (c : cmp) | MStr (c : cmp) | MIn | MOr | MAllIn | MRangeIn.')
    out.append('Definition op_methods : list (str * meth) := [%s].' % '; '.join('(%s, %s)' % (lit(k), v) for k, v in ops))
    out.append('(* _range_in *)')
    out.append('Definition range_nargs : nat := %d%%nat.' % r['nargs'])
    out.append('Definition range_iy : nat := %d%%nat.' % r['iy'])
    out.append('Definition range_iz : nat := %d%%nat.' % r['iz'])
    out.append('Definition range_guard : cmp := %s.' % r['guard'])
    out.append('Definition range_il : nat := %d%%nat.' % r['il'])
    out.append('Definition range_lower : list (str * cmp) := [%s].' % '; '.join('(%s, %s)' % (lit(k), v) for k, v in r['lower']))
    out.append('Definition range_iu : nat := %d%%nat.' % r['iu'])
    out.append('Definition range_upper : list (str * cmp) := [%s].' % '; '.join('(%s, %s)' % (lit(k), v) for k, v in r['upper']))
    return '\n'.join(out) + '\n'


if __name__ == '__main__':
    import sys
    sys.stdout.write(generate())
