"""Translator for property C11 (oslo_utils/netutils.py address / port / ICMP validators).

generate()       -> Gen/C11_Netutils.v : the values the address validators depend on, read from the AST of
                    the functions after checking that each function still has the statement structure the
                    hand-written model (coq/Model/C11.v) follows:
                      mac_re, mac_eos (the pattern of is_valid_mac through CPython's re parser), scope_sep / scope_min /
                      scope_max / scope_forbidden (is_valid_ipv6), the except tuples of the four address validators, cidr_sep /
                      cidr_seg_bad_max (is_valid_cidr), ipv4_strict_default, ip_v4_strict (is_valid_ip).
generate_code()  -> Gen/C11_Code.v : statement-level translation (py2gal) of _is_int_in_range, is_valid_port,
                    is_valid_icmp_type, is_valid_icmp_code.

Fail-closed: a function whose skeleton (AST with every constant and every except-tuple replaced by a hole)
differs from the template below, or a hole whose value is not of the expected kind, raises GenError; the run then
uses the committed baseline copy and the tie for that item rests on the correspondence check."""
import ast, copy
from common import repo_ast, find_def, GenError, HEADER
import regex_tr
import failclosed

SRC = 'oslo_utils/netutils.py'
# each function read below must be the one undecorated definition bound to its name (the skeleton comparison ignores decorators),
# netaddr / INET_ATON / INET_PTON / re what the import lines say (tools/gen/failclosed.py)
_NOD = {'defaults': {}}
FAILCLOSED = {
    'generate': [{'src': SRC, 'mod': 'oslo_utils.netutils',
                  'functions': {'is_valid_ipv4': {'defaults': {'strict': failclosed.ANY}}, 'is_valid_ipv6': _NOD, 'is_valid_cidr': _NOD,
                                'is_valid_ipv6_cidr': _NOD, 'is_valid_ip': _NOD, 'is_valid_mac': _NOD},
                  'imports': {'netaddr': 'netaddr', 'INET_ATON': 'netaddr.core:INET_ATON', 'INET_PTON': 'netaddr.core:INET_PTON', 're': 're'}}],
    'generate_code': [{'src': SRC, 'mod': 'oslo_utils.netutils',
                       'functions': {'_is_int_in_range': _NOD, 'is_valid_port': _NOD, 'is_valid_icmp_type': _NOD, 'is_valid_icmp_code': _NOD}}]}

# Templates: the function bodies as the model reads them.  A string constant '@name' marks a hole whose
# source value is emitted as Coq constant `name`; every other constant must be identical in the source.
TEMPLATES = {
'is_valid_ipv4': '''
def is_valid_ipv4(address, strict='@ipv4_strict_default'):
    if not address:
        return False
    flag = INET_PTON if strict else INET_ATON
    try:
        return netaddr.valid_ipv4(address, flags=flag)
    except '@ipv4_caught':
        return False
''',
'is_valid_ipv6': '''
def is_valid_ipv6(address):
    if not address:
        return False
    parts = address.rsplit('@scope_sep', 1)
    address = parts[0]
    scope = parts[1] if len(parts) > 1 else None
    if scope is not None and (len(scope) < '@scope_min' or len(scope) > '@scope_max' or '@scope_forbidden' in scope):
        return False
    try:
        return netaddr.valid_ipv6(address, netaddr.core.INET_PTON)
    except '@ipv6_caught':
        return False
''',
'is_valid_cidr': '''
def is_valid_cidr(address):
    try:
        netaddr.IPNetwork(address)
    except '@cidr_caught':
        return False
    ip_segment = address.split('@cidr_sep')
    if (len(ip_segment) <= '@cidr_seg_bad_max' or ip_segment[1] == ''):
        return False
    return True
''',
'is_valid_ipv6_cidr': '''
def is_valid_ipv6_cidr(address):
    try:
        netaddr.IPNetwork(address, version=6).cidr
        return True
    except '@v6cidr_caught':
        return False
''',
'is_valid_ip': '''
def is_valid_ip(address):
    return is_valid_ipv4(address, '@ip_v4_strict') or is_valid_ipv6(address)
''',
'is_valid_mac': '''
def is_valid_mac(address):
    m = '@mac_pattern'
    return isinstance(address, str) and re.match(m, address.lower())
''',
}

EXC = {'ValueError': 'AValueError', 'TypeError': 'ATypeError', 'netaddr.AddrFormatError': 'AAddrFormatError',
       'AddrFormatError': 'AAddrFormatError', 'netaddr.core.AddrFormatError': 'AAddrFormatError', 'OSError': 'AOSError'}


class _Holes(ast.NodeTransformer):
    def __init__(self):
        self.vals = []

    def visit_Constant(self, n):
        self.vals.append(n.value)
        return ast.copy_location(ast.Constant(value='?'), n)

    def visit_ExceptHandler(self, n):
        t = n.type
        if isinstance(t, ast.Constant):
            self.vals.append(t.value)
        elif t is None:
            self.vals.append(('exc', None))
        else:
            elts = t.elts if isinstance(t, ast.Tuple) else [t]
            self.vals.append(('exc', [ast.unparse(x) for x in elts]))
        n.type = ast.Constant(value='?')
        n.body = [self.visit(s) for s in n.body]
        return n


def skeleton(fn):
    fn = copy.deepcopy(fn)
    if fn.body and isinstance(fn.body[0], ast.Expr) and isinstance(fn.body[0].value, ast.Constant) \
            and isinstance(fn.body[0].value.value, str):
        fn.body = fn.body[1:]
    fn.decorator_list = []
    h = _Holes()
    fn = h.visit(fn)
    return ast.dump(fn, annotate_fields=True, include_attributes=False), h.vals


def read_holes(tree, name):
    tfn = ast.parse(TEMPLATES[name]).body[0]
    rfn = find_def(tree, name)
    ts, tv = skeleton(tfn)
    rs, rv = skeleton(rfn)
    if ts != rs or len(tv) != len(rv):
        raise GenError('%s: statement structure differs from the modelled one' % name)
    out = {}
    for t, r in zip(tv, rv):
        if isinstance(t, str) and t.startswith('@'):
            out[t[1:]] = r
        elif type(t) is not type(r) or t != r:
            raise GenError('%s: constant %r where the model expects %r' % (name, r, t))
    return out


def _char(v, what):
    if not (isinstance(v, str) and len(v) == 1):
        raise GenError('%s: separator is not a one-character string' % what)
    return ord(v)


def _int(v, what):
    if isinstance(v, bool) or not isinstance(v, int):
        raise GenError('%s: not an integer literal' % what)
    return v


def _bool(v, what):
    if not isinstance(v, bool):
        raise GenError('%s: not a bool literal' % what)
    return 'true' if v else 'false'


def _exc(v, what):
    if not (isinstance(v, tuple) and v[0] == 'exc') or v[1] is None:
        raise GenError('%s: except clause is not a class or tuple of classes' % what)
    try:
        return '[' + '; '.join(EXC[x] for x in v[1]) + ']'
    except KeyError as e:
        raise GenError('%s: except clause names an unknown class %s' % (what, e))


def mac_regex(pat):
    """Base/Regex.v has no end-of-string anchor: a trailing \\Z is split off and reported as a flag
    (the model then matches the body with the continuation "the rest of the subject is empty", which is
    what `body\\Z` means under backtracking); a \\Z anywhere else is outside the fragment."""
    import re._parser as P
    from re._constants import AT, AT_END_STRING
    tree = P.parse(pat, 0)
    items = list(tree)
    eos = bool(items) and items[-1] == (AT, AT_END_STRING)
    if eos: items = items[:-1]
    if tree.state.flags & ~32:      # anything but the default UNICODE flag
        raise regex_tr.Unsupported('inline flags')
    return regex_tr.tr_seq(items, tree.state.flags), eos


def generate():
    failclosed.check_all(FAILCLOSED['generate'])
    tree = repo_ast(SRC)
    h = {}
    for name in TEMPLATES:
        h.update(read_holes(tree, name))
    pat = h['mac_pattern']
    if not isinstance(pat, str):
        raise GenError('is_valid_mac: pattern is not a string literal')
    try:
        mac_re, mac_eos = mac_regex(pat)
    except regex_tr.Unsupported as e:
        raise GenError('is_valid_mac: pattern outside the supported regex fragment: %s' % e)
    out = [HEADER % (SRC, 'tools/gen/gen_C11.py')]
    out.append('Require Import OV.Base.Bytes OV.Base.PyInt OV.Base.Regex OV.Base.C11_Lib.')
    out.append('Open Scope N_scope.')
    out.append('(* is_valid_mac: re.match(%r, address.lower()) *)' % pat.replace('*)', '* )'))
    out.append('Definition mac_re : re := %s.' % mac_re)
    out.append('(* the pattern ends in \\Z (end of string), split off by the translator *)')
    out.append('Definition mac_eos : bool := %s.' % ('true' if mac_eos else 'false'))
    out.append('(* is_valid_ipv6: address.rsplit(scope_sep, 1); len(scope) < scope_min or len(scope) > scope_max *)')
    out.append('Definition scope_sep : N := %d.' % _char(h['scope_sep'], 'is_valid_ipv6'))
    out.append('Definition scope_min : Z := (%d)%%Z.' % _int(h['scope_min'], 'is_valid_ipv6'))
    out.append('Definition scope_max : Z := (%d)%%Z.' % _int(h['scope_max'], 'is_valid_ipv6'))
    out.append('(* ... or scope_forbidden in scope -> False *)')
    out.append('Definition scope_forbidden : N := %d.' % _char(h['scope_forbidden'], 'is_valid_ipv6'))
    out.append('(* the except tuples *)')
    out.append('Definition ipv4_caught : list aexn := %s.' % _exc(h['ipv4_caught'], 'is_valid_ipv4'))
    out.append('Definition ipv6_caught : list aexn := %s.' % _exc(h['ipv6_caught'], 'is_valid_ipv6'))
    out.append('Definition cidr_caught : list aexn := %s.' % _exc(h['cidr_caught'], 'is_valid_cidr'))
    out.append('Definition v6cidr_caught : list aexn := %s.' % _exc(h['v6cidr_caught'], 'is_valid_ipv6_cidr'))
    out.append("(* is_valid_cidr: ip_segment = address.split(cidr_sep); len(ip_segment) <= cidr_seg_bad_max or ip_segment[1] == '' -> False *)")
    out.append('Definition cidr_sep : N := %d.' % _char(h['cidr_sep'], 'is_valid_cidr'))
    out.append('Definition cidr_seg_bad_max : Z := (%d)%%Z.' % _int(h['cidr_seg_bad_max'], 'is_valid_cidr'))
    out.append('(* is_valid_ipv4(address, strict=ipv4_strict_default); is_valid_ip calls is_valid_ipv4(address, ip_v4_strict) *)')
    out.append('Definition ipv4_strict_default : bool := %s.' % _bool(h['ipv4_strict_default'], 'is_valid_ipv4'))
    out.append('Definition ip_v4_strict : bool := %s.' % _bool(h['ip_v4_strict'], 'is_valid_ip'))
    return '\n'.join(out) + '\n'


class _IsNone(ast.NodeTransformer):
    """`x is None` on a parameter of type pyval -> pyval_is_none__(x)  (py2gal only knows `is None` on option Z)"""
    def __init__(self, names):
        self.names = names

    def visit_Compare(self, n):
        if len(n.ops) == 1 and isinstance(n.ops[0], ast.Is) and isinstance(n.left, ast.Name) and n.left.id in self.names \
                and isinstance(n.comparators[0], ast.Constant) and n.comparators[0].value is None:
            return ast.Call(func=ast.Name(id='pyval_is_none__', ctx=ast.Load()), args=[n.left], keywords=[])
        return n


COQ_RESERVED = {'end': 'end_', 'type': 'type_', 'match': 'match_', 'with': 'with_', 'in': 'in_', 'fun': 'fun_', 'let': 'let_'}


class _Rename(ast.NodeTransformer):
    """rename identifiers that are Coq keywords (fails closed when the new name is already in use)"""
    def __init__(self, fn):
        used = {n.id for n in ast.walk(fn) if isinstance(n, ast.Name)} | {a.arg for a in fn.args.args}
        for old, new in COQ_RESERVED.items():
            if old in used and new in used:
                raise GenError('cannot rename %s: %s is in use' % (old, new))

    def visit_Name(self, n):
        if n.id in COQ_RESERVED:
            return ast.copy_location(ast.Name(id=COQ_RESERVED[n.id], ctx=n.ctx), n)
        return n

    def visit_arg(self, n):
        if n.arg in COQ_RESERVED:
            n.arg = COQ_RESERVED[n.arg]
        return n


def _prep(fd, none_names=()):
    fd = copy.deepcopy(fd)
    fd = _Rename(fd).visit(fd)
    fd = _IsNone(set(none_names)).visit(fd)
    return ast.fix_missing_locations(fd)


def generate_code():
    import py2gal
    from py2gal import Fn
    py2gal.COQ_TY.setdefault('pyval', 'pyval')
    failclosed.check_all(FAILCLOSED['generate_code'])
    tree = repo_ast(SRC)
    funcs = {'int': Fn('py_int_of', ['pyval'], 'int', raises=True),
             'pyval_is_none__': Fn('pyval_is_none', ['pyval'], 'bool')}
    parts = []
    try:
        parts.append(py2gal.translate_function(_prep(py2gal.get_fndef(tree, '_is_int_in_range')), 'gen_is_int_in_range',
                                               [('value', 'pyval'), ('start', 'int'), ('end_', 'int')], funcs=funcs))
        funcs['_is_int_in_range'] = Fn('gen_is_int_in_range', ['pyval', 'int', 'int'], 'bool', raises=True)
        for fname, arg in (('is_valid_port', 'port'), ('is_valid_icmp_type', 'type_'), ('is_valid_icmp_code', 'code')):
            fd = _prep(py2gal.get_fndef(tree, fname), {arg})
            parts.append(py2gal.translate_function(fd, 'gen_' + fname, [(arg, 'pyval')], funcs=funcs, ret_type='bool'))
    except py2gal.Unsupported as e:
        raise GenError('int-range validators: ' + str(e))
    txt = ''.join(parts)
    if 'res (bool)' not in txt:
        raise GenError('int-range validators: unexpected result type')
    return (HEADER % (SRC, 'tools/gen/gen_C11.py (py2gal)')
            + 'Require Import OV.Base.Bytes OV.Base.Py OV.Base.PyInt OV.Base.C11_Lib.\nOpen Scope Z_scope.\n' + txt)


if __name__ == '__main__':
    import sys
    sys.stdout.write(generate())
    sys.stdout.write(generate_code())
