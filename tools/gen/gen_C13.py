"""gen_C13 — Gen/C13_StopWatch.v: statement-level translation of class StopWatch (and the
parts of class Split it uses) in oslo_utils/timeutils.py.

A copy-and-extend of the py2gal idea for a *stateful* class whose methods call each other,
read a clock and raise.  Every method `m` becomes

    gen_m T N clk _state _started_at _stopped_at _splits _duration tick args : gst T * res R

generic in the number type T and its operations N : num T (Base/C13_Types.v): 0.0 is `n_zero N`, a - b is
`n_sub N a b`, a > b / a >= b are `n_gtb N a b` / `n_geb N a b` (< and <= swap the operands), max / min are
`n_max N` / `n_min N` (defined from > as CPython does).  The same text is the exact-arithmetic model at T := Z
and the binary64 model at T := float64 (Base/PyFloat.v); any other numeric constant or operator is refused.

i.e. it returns the object's fields AS THEY ARE when the call ends — also when it ends by
raising (so "an illegal call leaves the watch as it was" is a statement about the
translation, not an artefact of it) — and the outcome (Ok value | Exn class).

  * `now()` reads `clk tick` and increments `tick` (the clock is the infinite stream clk;
    the harness replaces timeutils.now by a scripted clock).
  * evaluation order is kept: operands are evaluated left to right, an operand evaluated
    before an effectful sibling is let-bound first (A-normal form).
  * `x is None` / `x is not None` tests narrow an optional number; an optional number that is
    used as a number without such a test unwraps with `Exn TypeError` for None (CPython:
    float - None raises TypeError); t[-1] on an empty tuple is `Exn IndexError`.
  * try/except: the handler runs with the fields as they were at the raise.

Anything outside the subset raises GenError => the runner falls back to the committed
baseline (fail closed; never guesses).
"""
import ast
from common import *
import failclosed

SRC = 'oslo_utils/timeutils.py'

FIELDS = [('_state', 'ostate'), ('_started_at', 'optint'), ('_stopped_at', 'optint'),
          ('_splits', 'splits'), ('_duration', 'optint')]
FIELD_TY = dict(FIELDS)
COQ_TY = {'int': 'T', 'bool': 'bool', 'none': 'unit', 'self': 'unit', 'optint': 'option T', 'ostate': 'ostate',
          'splits': 'list (split T)', 'split': 'split T', 'slit': 'bytes', 'optobj': 'option unit', 'obj': 'unit', 'optbool': 'option bool'}
EXNS = {'RuntimeError', 'ValueError', 'TypeError', 'IndexError', 'KeyError', 'AttributeError', 'OverflowError'}
RESERVED = {'clk', 'T', 'N', 'tt', 'Some', 'None', 'Ok', 'Exn', 'fun', 'let', 'in', 'match', 'with', 'end', 'if', 'then', 'else',
            'forall', 'exists', 'Type', 'Prop', 'Set', 'fix', 'as', 'return', 'nil', 'cons', 'true', 'false', 'S', 'O'}

STATE = '(self__state, self__started_at, self__stopped_at, self__splits, self__duration, self_tick)'
STATE_ARGS = 'self__state self__started_at self__stopped_at self__splits self__duration self_tick'
STATE_PARAMS = ('(self__state : ostate) (self__started_at : option T) (self__stopped_at : option T) '
                '(self__splits : list (split T)) (self__duration : option T) (self_tick : nat)')

class Unsupported(Exception):
    pass

class Sig:
    def __init__(self, coq, params, ret, assigned):
        self.coq, self.params, self.ret, self.assigned = coq, params, ret, assigned   # params: [(name, type, default_text|None)]

class Env:
    def __init__(self, types=None, narrow=None, handler=None):
        self.types = dict(types or {}); self.narrow = dict(narrow or {}); self.handler = handler
    def copy(self):
        return Env(self.types, self.narrow, self.handler)

def src(e):
    return ast.unparse(e)

def effectful(e):
    """does evaluating e read the clock or call a method of self (which may rebind the field variables)?"""
    for n in ast.walk(e):
        if isinstance(n, ast.Call):
            f = src(n.func)
            if f in ('max', 'min', 'Split', 'self._delta_seconds'): continue
            return True
    return False

class MethodTr:
    def __init__(self, ctx, name, ret):
        self.ctx, self.name, self.rty = ctx, name, ret
        self.n = 0
        self.assigned = set()

    def fresh(self, base):
        self.n += 1
        return '%s%d' % (base, self.n)

    def raise_(self, exn_text, env):
        if env.handler is not None:
            return env.handler(exn_text, env)
        return '(%s, Exn %s)' % (STATE, exn_text)

    # ------------------------------------------------------------------ expressions (CPS)
    def num(self, t, ty, env, k):
        if ty == 'int': return k(t)
        if ty == 'optint':
            u = self.fresh('u')
            return 'match %s with Some %s =>\n%s\n| None => %s end' % (t, u, k(u), self.raise_('TypeError', env))
        raise Unsupported('a %s used as a number' % ty)

    def ev_list(self, es, env, k):
        def go(i, acc):
            if i == len(es): return k(acc)
            later = any(effectful(x) for x in es[i + 1:])
            def kk(t, ty):
                if later and not t.lstrip('(-').rstrip(')').isdigit():
                    v = self.fresh('tmp')
                    return 'let %s := %s in\n%s' % (v, t, go(i + 1, acc + [(v, ty)]))
                return go(i + 1, acc + [(t, ty)])
            return self.ev(es[i], env, kk)
        return go(0, [])

    def as_ostate(self, t, ty):
        if ty == 'ostate': return t
        if ty == 'slit': return '(Some %s)' % t
        if ty == 'nonelit': return 'None'
        raise Unsupported('== between the state and a %s' % ty)

    def ev(self, e, env, k):
        s = src(e)
        if s in self.ctx.consts:
            return k(*self.ctx.consts[s])
        if isinstance(e, ast.Constant):
            v = e.value
            if isinstance(v, bool): return k('true' if v else 'false', 'bool')
            if isinstance(v, (int, float)):
                if v != 0 or str(v).startswith('-'): raise Unsupported('numeric constant %r (only 0 / 0.0 are translated)' % (v,))
                return k('(n_zero N)', 'int')
            if v is None: return k('None', 'nonelit')
            raise Unsupported('constant %r' % (v,))
        if isinstance(e, ast.Name):
            if e.id == 'self': return k('tt', 'self')
            if e.id in env.narrow: return k(*env.narrow[e.id])
            if e.id not in env.types: raise Unsupported('unknown name ' + e.id)
            return k(e.id, env.types[e.id])
        if isinstance(e, ast.Attribute) and isinstance(e.value, ast.Name) and e.value.id == 'self':
            if e.attr not in FIELD_TY: raise Unsupported('attribute self.' + e.attr)
            if s in env.narrow: return k(*env.narrow[s])
            return k('self_' + e.attr, FIELD_TY[e.attr])
        if isinstance(e, ast.Attribute):
            if e.attr not in self.ctx.split_props: raise Unsupported('attribute .' + e.attr)
            def kk(t, ty):
                if ty != 'split': raise Unsupported('.%s of a %s' % (e.attr, ty))
                return k('(%s T %s)' % (self.ctx.split_props[e.attr], t), 'int')
            return self.ev(e.value, env, kk)
        if isinstance(e, ast.UnaryOp) and isinstance(e.op, ast.Not):
            def kk(t, ty):
                if ty != 'bool': raise Unsupported('not on a %s (truthiness is not translated)' % ty)
                return k('(negb %s)' % t, 'bool')
            return self.ev(e.operand, env, kk)
        if isinstance(e, ast.BinOp) and isinstance(e.op, (ast.Add, ast.Sub)):
            op = '+' if isinstance(e.op, ast.Add) else '-'
            def kk(vs):
                (a, ta), (b, tb) = vs
                if ta == tb == 'splits' and op == '+': return k('(%s ++ %s)' % (a, b), 'splits')
                if op == '+': raise Unsupported('+ on numbers')
                return self.num(a, ta, env, lambda x: self.num(b, tb, env, lambda y: k('(n_sub N %s %s)' % (x, y), 'int')))
            return self.ev_list([e.left, e.right], env, kk)
        if isinstance(e, ast.Tuple):
            def kk(vs):
                if any(ty != 'split' for _, ty in vs): raise Unsupported('tuple of non-Split values')
                return k('[%s]' % '; '.join(t for t, _ in vs) if vs else '(@nil (split T))', 'splits')
            return self.ev_list(list(e.elts), env, kk)
        if isinstance(e, ast.Compare) and len(e.ops) == 1:
            op, right = e.ops[0], e.comparators[0]
            if isinstance(op, (ast.Is, ast.IsNot)) and isinstance(right, ast.Constant) and right.value is None:
                def kk(t, ty):
                    if ty in ('int', 'obj'): txt = 'false'         # narrowed: known not to be None
                    elif ty in ('optint', 'optobj'): txt = '(match %s with None => true | Some _ => false end)' % t
                    else: raise Unsupported('is None on a %s' % ty)
                    return k(txt if isinstance(op, ast.Is) else '(negb %s)' % txt, 'bool')
                return self.ev(e.left, env, kk)
            if isinstance(op, (ast.In, ast.NotIn)) and isinstance(right, ast.Tuple) and right.elts:
                def kk(vs):
                    (a, ta) = vs[0]
                    tests = ['(ostate_eqb %s %s)' % (self.as_ostate(a, ta), self.as_ostate(b, tb)) for b, tb in vs[1:]]
                    txt = '(' + ' || '.join(tests) + ')'
                    return k(txt if isinstance(op, ast.In) else '(negb %s)' % txt, 'bool')
                return self.ev_list([e.left] + list(right.elts), env, kk)
            def kk(vs):
                (a, ta), (b, tb) = vs
                if 'ostate' in (ta, tb) or 'slit' in (ta, tb):
                    if not isinstance(op, (ast.Eq, ast.NotEq)): raise Unsupported('ordering of states')
                    txt = '(ostate_eqb %s %s)' % (self.as_ostate(a, ta), self.as_ostate(b, tb))
                    return k(txt if isinstance(op, ast.Eq) else '(negb %s)' % txt, 'bool')
                fmt = {ast.Gt: '(n_gtb N %(x)s %(y)s)', ast.Lt: '(n_gtb N %(y)s %(x)s)',
                       ast.GtE: '(n_geb N %(x)s %(y)s)', ast.LtE: '(n_geb N %(y)s %(x)s)'}.get(type(op))
                if fmt is None: raise Unsupported('comparison ' + s)
                return self.num(a, ta, env, lambda x: self.num(b, tb, env, lambda y: k(fmt % {'x': x, 'y': y}, 'bool')))
            return self.ev_list([e.left, right], env, kk)
        if isinstance(e, ast.BoolOp):
            if any(effectful(v) for v in e.values): raise Unsupported('effects under and/or')
            def kk(vs):
                if any(ty != 'bool' for _, ty in vs): raise Unsupported('and/or on non-bool (truthiness is not translated)')
                return k('(' + (' && ' if isinstance(e.op, ast.And) else ' || ').join(t for t, _ in vs) + ')', 'bool')
            return self.ev_list(list(e.values), env, kk)
        if isinstance(e, ast.Subscript):
            idx = e.slice
            if not (isinstance(idx, ast.UnaryOp) and isinstance(idx.op, ast.USub) and isinstance(idx.operand, ast.Constant)
                    and idx.operand.value == 1):
                raise Unsupported('subscript ' + s)
            def kk(t, ty):
                if ty != 'splits': raise Unsupported('[-1] of a %s' % ty)
                v = self.fresh('last')
                return 'match last_opt %s with Some %s =>\n%s\n| None => %s end' % (t, v, k(v, 'split'), self.raise_('IndexError', env))
            return self.ev(e.value, env, kk)
        if isinstance(e, ast.Call):
            return self.call(e, env, k)
        raise Unsupported(ast.dump(e)[:120])

    def call(self, e, env, k):
        f = src(e.func)
        if f == 'now':
            if e.args or e.keywords: raise Unsupported('now() with arguments')
            if 'now' in env.types: raise Unsupported('now is shadowed by a local')
            v = self.fresh('now')
            return 'let %s := clk self_tick in\nlet self_tick := S self_tick in\n%s' % (v, k(v, 'int'))
        if f in ('max', 'min') and len(e.args) == 2 and not e.keywords:
            def kk(vs):
                (a, ta), (b, tb) = vs
                return self.num(a, ta, env, lambda x: self.num(b, tb, env, lambda y: k('(n_%s N %s %s)' % (f, x, y), 'int')))
            return self.ev_list(list(e.args), env, kk)
        if f == 'Split' and len(e.args) == 2 and not e.keywords:
            def kk(vs):
                (a, ta), (b, tb) = vs
                return self.num(a, ta, env, lambda x: self.num(b, tb, env, lambda y: k('(gen_Split T %s %s)' % (x, y), 'split')))
            return self.ev_list(list(e.args), env, kk)
        if f == 'self._delta_seconds' and len(e.args) == 2 and not e.keywords:
            if 'delta_seconds' not in self.ctx.pure: raise Unsupported('_delta_seconds not translated')
            def kk(vs):
                (a, ta), (b, tb) = vs
                return self.num(a, ta, env, lambda x: self.num(b, tb, env, lambda y: k('(gen_delta_seconds T N %s %s)' % (x, y), 'int')))
            return self.ev_list(list(e.args), env, kk)
        if f.startswith('self.') and f[5:] in self.ctx.methods:
            sig = self.ctx.methods[f[5:]]
            if e.keywords or len(e.args) > len(sig.params): raise Unsupported('call ' + src(e))
            def kk(vs):
                args = []
                for i, (pn, pt, pd) in enumerate(sig.params):
                    if i < len(vs):
                        t, ty = vs[i]
                        if pt == 'optint' and ty == 'int': t = '(Some %s)' % t
                        elif pt == 'optint' and ty == 'nonelit': t = 'None'
                        elif ty != pt: raise Unsupported('argument %s of %s: %s for %s' % (pn, f, ty, pt))
                        args.append(t)
                    else:
                        if pd is None: raise Unsupported('missing argument %s of %s' % (pn, f))
                        args.append(pd)
                r, x, v = self.fresh('r__'), self.fresh('e__'), self.fresh('v')
                self.assigned |= sig.assigned
                for fld in sig.assigned: env.narrow.pop('self.' + fld, None)
                return ('match %s T N clk %s%s with\n| (%s, %s) =>\nmatch %s with Exn %s => %s\n| Ok %s =>\n%s end end'
                        % (sig.coq, STATE_ARGS, ''.join(' ' + a for a in args), STATE, r, r, x, self.raise_(x, env), v, k(v, sig.ret)))
            return self.ev_list(list(e.args), env, kk)
        raise Unsupported('call to ' + f)

    # ------------------------------------------------------------------ conditions
    def cond(self, test, env, T, E):
        if isinstance(test, ast.BoolOp):
            vals = test.values
            if len(vals) == 1: return self.cond(vals[0], env, T, E)
            rest = ast.BoolOp(op=test.op, values=vals[1:])
            if isinstance(test.op, ast.And):
                return self.cond(vals[0], env, lambda e2: self.cond(rest, e2, T, E), E)
            return self.cond(vals[0], env, T, lambda e2: self.cond(rest, e2, T, E))
        if isinstance(test, ast.UnaryOp) and isinstance(test.op, ast.Not):
            return self.cond(test.operand, env, E, T)
        if isinstance(test, ast.Compare) and len(test.ops) == 1 and isinstance(test.ops[0], (ast.Is, ast.IsNot)) \
                and isinstance(test.comparators[0], ast.Constant) and test.comparators[0].value is None:
            x = test.left
            key = src(x)
            is_field = isinstance(x, ast.Attribute) and isinstance(x.value, ast.Name) and x.value.id == 'self' and x.attr in FIELD_TY
            if (isinstance(x, ast.Name) or is_field) and key not in env.narrow:
                ty = FIELD_TY[x.attr] if is_field else env.types.get(x.id)
                if ty not in ('optint', 'optobj'): raise Unsupported('is None on %s : %s' % (key, ty))
                var = self.fresh('some')
                e_some = env.copy(); e_some.narrow[key] = (var, 'int' if ty == 'optint' else 'obj')
                e_none = env.copy()
                some_k, none_k = (T, E) if isinstance(test.ops[0], ast.IsNot) else (E, T)
                return 'match %s with Some %s => (\n%s)\n| None => (\n%s) end' % (
                    ('self_' + x.attr) if is_field else x.id, var, some_k(e_some), none_k(e_none))
        if effectful(test): raise Unsupported('effects in a condition: ' + src(test))
        def kk(t, ty):
            if ty == 'splits': t, ty = '(nonempty %s)' % t, 'bool'
            if ty != 'bool': raise Unsupported('condition of type %s (truthiness is not translated)' % ty)
            return 'if %s then (\n%s)\nelse (\n%s)' % (t, T(env.copy()), E(env.copy()))
        return self.ev(test, env, kk)

    # ------------------------------------------------------------------ statements
    def ret(self, t, ty):
        want = self.ret_type()
        if want == 'optint' and ty == 'int': t = '(Some %s)' % t
        elif want == 'optint' and ty == 'nonelit': t = 'None'
        elif want == 'none' and ty == 'nonelit': t = 'tt'
        elif want == 'optbool' and ty == 'nonelit': t = 'None'
        elif want == 'optbool' and ty == 'bool': t = '(Some %s)' % t
        elif ty != want: raise Unsupported('return of a %s from %s (declared %s)' % (ty, self.name, want))
        return '(%s, Ok %s)' % (STATE, t)

    def ret_type(self):
        return self.rty

    def block(self, stmts, env, kend=None):
        if not stmts:
            return kend(env) if kend else self.ret('None', 'nonelit')
        s, rest = stmts[0], stmts[1:]
        if isinstance(s, ast.Pass) or (isinstance(s, ast.Expr) and isinstance(s.value, ast.Constant) and isinstance(s.value.value, str)):
            return self.block(rest, env, kend)
        if isinstance(s, ast.Return):
            if s.value is None: return self.ret('None', 'nonelit')
            return self.ev(s.value, env, lambda t, ty: self.ret(t, ty))
        if isinstance(s, ast.Raise):
            exc = s.exc
            name = exc.func.id if isinstance(exc, ast.Call) and isinstance(exc.func, ast.Name) else (exc.id if isinstance(exc, ast.Name) else None)
            if name not in EXNS or s.cause is not None: raise Unsupported('raise: ' + src(s)[:80])
            if isinstance(exc, ast.Call) and any(effectful(a) for a in exc.args): raise Unsupported('effects in exception arguments')
            return self.raise_(name, env)
        if isinstance(s, ast.Assign) and len(s.targets) == 1:
            tgt = s.targets[0]
            if isinstance(tgt, ast.Name):
                if tgt.id in RESERVED or tgt.id.startswith('self_') or tgt.id == 'now': raise Unsupported('local name ' + tgt.id)
                def kk(t, ty):
                    if ty in ('nonelit', 'self'): raise Unsupported('local %s bound to %s' % (tgt.id, ty))
                    if env.types.get(tgt.id, ty) != ty: raise Unsupported('local %s retyped' % tgt.id)
                    env.types[tgt.id] = ty; env.narrow.pop(tgt.id, None)
                    return 'let %s := %s in\n%s' % (tgt.id, t, self.block(rest, env, kend))
                return self.ev(s.value, env, kk)
            if isinstance(tgt, ast.Attribute) and isinstance(tgt.value, ast.Name) and tgt.value.id == 'self' and tgt.attr in FIELD_TY:
                fty = FIELD_TY[tgt.attr]
                def kk(t, ty):
                    if fty == 'optint' and ty == 'int': t = '(Some %s)' % t
                    elif fty in ('optint', 'ostate') and ty == 'nonelit': t = 'None'
                    elif fty == 'ostate' and ty == 'slit': t = '(Some %s)' % t
                    elif ty != fty: raise Unsupported('self.%s := %s' % (tgt.attr, ty))
                    self.assigned.add(tgt.attr); env.narrow.pop(src(tgt), None)
                    return 'let self_%s := %s in\n%s' % (tgt.attr, t, self.block(rest, env, kend))
                return self.ev(s.value, env, kk)
            raise Unsupported('assignment target ' + src(tgt))
        if isinstance(s, ast.If):
            return self.cond(s.test, env, lambda e2: self.block(s.body + rest, e2, kend), lambda e2: self.block(s.orelse + rest, e2, kend))
        if isinstance(s, ast.Expr) and isinstance(s.value, ast.Call):
            return self.ev(s.value, env, lambda t, ty: self.block(rest, env, kend))
        if isinstance(s, ast.Try):
            if s.orelse or s.finalbody or len(s.handlers) != 1: raise Unsupported('try shape')
            h = s.handlers[0]
            if h.name is not None or h.type is None: raise Unsupported('except shape')
            names = [src(x) for x in (h.type.elts if isinstance(h.type, ast.Tuple) else [h.type])]
            if any(n not in EXNS for n in names): raise Unsupported('except class ' + ', '.join(names))
            outer = env.handler
            def handler(exn_text, env_at_raise):
                e2 = env_at_raise.copy(); e2.handler = outer
                e3 = env_at_raise.copy(); e3.handler = outer
                return 'match %s with %s => (\n%s)\n| _ => %s end' % (
                    exn_text, ' | '.join(names), self.block(h.body + rest, e2, kend), self.raise_(exn_text, e3))
            body_env = env.copy(); body_env.handler = handler
            def after(env_end):
                e2 = env_end.copy(); e2.handler = outer
                return self.block(rest, e2, kend)
            return self.block(s.body, body_env, after)
        raise Unsupported(ast.dump(s)[:120])


class Ctx:
    def __init__(self):
        self.consts = {}; self.methods = {}; self.pure = set(); self.split_props = {}

def class_body(tree, name):
    for n in tree.body:
        if isinstance(n, ast.ClassDef) and n.name == name: return n
    raise GenError('class %s not found' % name)

def method(cls, name):
    ds = [n for n in cls.body if isinstance(n, ast.FunctionDef) and n.name == name]
    if len(ds) != 1: raise GenError('%s.%s: expected exactly one definition' % (cls.name, name))
    return ds[0]

def decorators(fn):
    return [src(d) for d in fn.decorator_list]

def plain_args(fn, want, defaults):
    a = fn.args
    if a.vararg or a.kwarg or a.kwonlyargs or a.posonlyargs: raise GenError('%s: signature' % fn.name)
    names = [x.arg for x in a.args]
    if names != want: raise GenError('%s: parameters %s, expected %s' % (fn.name, names, want))
    got = [src(d) for d in a.defaults]
    if got != defaults: raise GenError('%s: defaults %s, expected the kinds of %s' % (fn.name, got, defaults))

def gen_split(tree, out, ctx):
    """class Split: the constructor stores its two arguments, the two properties read them back"""
    cls = class_body(tree, 'Split')
    init = method(cls, '__init__')
    plain_args(init, ['self', 'elapsed', 'length'], [])
    stored = {}
    for st in init.body:
        if isinstance(st, ast.Expr) and isinstance(st.value, ast.Constant): continue
        ok = (isinstance(st, ast.Assign) and len(st.targets) == 1 and isinstance(st.targets[0], ast.Attribute)
              and isinstance(st.targets[0].value, ast.Name) and st.targets[0].value.id == 'self'
              and isinstance(st.value, ast.Name) and st.value.id in ('elapsed', 'length'))
        if not ok: raise GenError('Split.__init__: unexpected statement ' + src(st)[:60])
        stored[st.targets[0].attr] = st.value.id
    if sorted(stored) != ['_elapsed', '_length']: raise GenError('Split.__init__: fields ' + str(sorted(stored)))
    # the record is (sp_elapsed := the value stored in _elapsed, sp_length := the value stored in _length)
    out.append('Definition gen_Split (T : Type) (elapsed length : T) : split T := mkSplit %s %s.' % (stored['_elapsed'], stored['_length']))
    for prop in ('elapsed', 'length'):
        p = method(cls, prop)
        if decorators(p) != ['property']: raise GenError('Split.%s is not a plain property' % prop)
        plain_args(p, ['self'], [])
        body = [st for st in p.body if not (isinstance(st, ast.Expr) and isinstance(st.value, ast.Constant))]
        if not (len(body) == 1 and isinstance(body[0], ast.Return) and src(body[0].value) in ('self._elapsed', 'self._length')):
            raise GenError('Split.%s: body' % prop)
        proj = {'self._elapsed': 'sp_elapsed', 'self._length': 'sp_length'}[src(body[0].value)]
        out.append('Definition gen_Split_%s (T : Type) (s : split T) : T := %s s.' % (prop, proj))
        ctx.split_props[prop] = 'gen_Split_' + prop

# (python name, coq name, [(param, type, default source text, default coq text)], return type, expected decorators)
METHODS = [
    ('stop', 'gen_stop', [], 'self', []),
    ('start', 'gen_start', [], 'self', []),
    ('resume', 'gen_resume', [], 'self', []),
    ('elapsed', 'gen_elapsed', [('maximum', 'optint', 'None', 'None')], 'int', []),
    ('restart', 'gen_restart', [], 'self', []),
    ('split', 'gen_split', [], 'split', []),
    ('leftover', 'gen_leftover', [('return_none', 'bool', 'False', 'false')], 'optint', []),
    ('expired', 'gen_expired', [], 'bool', []),
    ('has_started', 'gen_has_started', [], 'bool', []),
    ('has_stopped', 'gen_has_stopped', [], 'bool', []),
    ('splits', 'gen_splits', [], 'splits', ['property']),
    ('__enter__', 'gen_enter', [], 'self', []),
    ('__exit__', 'gen_exit', [('type', 'optobj', None, None), ('value', 'optobj', None, None), ('traceback', 'optobj', None, None)], 'optbool', []),
    ('__init__', 'gen_init', [('duration', 'optint', 'None', 'None')], 'none', []),
]

# the two classes and every method read below must be THE objects bound to their names at run time (no second definition, no
# `StopWatch.stop = ...`, no subclass bound to the name), the class constants and the clock `now` unmodified (tools/gen/failclosed.py)
FAILCLOSED = {'generate': [{'src': SRC, 'mod': 'oslo_utils.timeutils',
    'classes': {'StopWatch': {'bases': []}, 'Split': {'bases': []}},
    'functions': dict([('Split.__init__', {'defaults': {}}), ('Split.elapsed', {'decorators': ['property'], 'defaults': {}}),
                       ('Split.length', {'decorators': ['property'], 'defaults': {}}),
                       ('StopWatch._delta_seconds', {'decorators': ['staticmethod'], 'defaults': {}})] +
                      [('StopWatch.' + py, {'decorators': decos, 'defaults': {p[0]: p[2] for p in params if p[1] is not None and p[2] is not None}})
                       for py, _, params, _, decos in METHODS]),
    'constants': ['now', 'StopWatch._STARTED', 'StopWatch._STOPPED'],
    'imports': {'time': 'time'}}]}

def generate():
    failclosed.check_all(FAILCLOSED['generate'])
    tree = repo_ast(SRC)
    out = [HEADER % (SRC, 'tools/gen/gen_C13.py')]
    out.append('From Coq Require Import ZArith List.\nRequire Import OV.Base.Bytes OV.Base.Py OV.Base.C13_Types.\nImport ListNotations.')
    ctx = Ctx()
    # the clock: a module-level name `now` that the methods call (the harness replaces it)
    nows = [n for n in tree.body if isinstance(n, ast.Assign) and any(isinstance(t, ast.Name) and t.id == 'now' for t in n.targets)]
    defs = [n for n in tree.body if isinstance(n, (ast.FunctionDef, ast.ClassDef)) and n.name == 'now']
    if len(nows) + len(defs) != 1: raise GenError('module-level clock `now` not found (or defined twice)')
    cls = class_body(tree, 'StopWatch')
    for n in ast.walk(cls):
        if isinstance(n, (ast.Global, ast.Nonlocal, ast.Lambda, ast.AsyncFunctionDef, ast.Yield, ast.YieldFrom, ast.Await)):
            raise GenError('StopWatch: unsupported construct ' + type(n).__name__)
        if isinstance(n, (ast.Name, ast.arg)) and (getattr(n, 'id', None) == 'now' or getattr(n, 'arg', None) == 'now') \
                and not (isinstance(n, ast.Name) and isinstance(n.ctx, ast.Load)):
            raise GenError('StopWatch rebinds `now`')
    # class-level constants (the state tags)
    for st in cls.body:
        if isinstance(st, ast.Assign) and len(st.targets) == 1 and isinstance(st.targets[0], ast.Name):
            nm = st.targets[0].id
            if not (isinstance(st.value, ast.Constant) and isinstance(st.value.value, str)):
                raise GenError('class attribute %s is not a string literal' % nm)
            coq = 'C13' + nm if nm.startswith('_') else 'C13_' + nm
            out.append('Definition %s : bytes := %s%%N.' % (coq, lit(st.value.value)))
            ctx.consts['self.' + nm] = (coq, 'slit')
        elif isinstance(st, (ast.AnnAssign, ast.AugAssign)):
            raise GenError('class-level statement ' + src(st)[:60])
    for want in ('self._STARTED', 'self._STOPPED'):
        if want not in ctx.consts: raise GenError('class attribute %s not found' % want[5:])
    names_defined = [n.name for n in cls.body if isinstance(n, ast.FunctionDef)]
    known = {m[0] for m in METHODS} | {'_delta_seconds'}
    extra = sorted(set(names_defined) - known)
    if extra: raise GenError('StopWatch has methods the translation does not know: ' + ', '.join(extra))
    gen_split(tree, out, ctx)
    # _delta_seconds: a static, pure, single-expression function of two numbers
    d = method(cls, '_delta_seconds')
    if decorators(d) != ['staticmethod']: raise GenError('_delta_seconds is not a staticmethod')
    plain_args(d, ['earlier', 'later'], [])
    body = [st for st in d.body if not (isinstance(st, ast.Expr) and isinstance(st.value, ast.Constant))]
    if not (len(body) == 1 and isinstance(body[0], ast.Return) and body[0].value is not None and not effectful(body[0].value)):
        raise GenError('_delta_seconds: expected a single pure return')
    try:
        tr = MethodTr(ctx, '_delta_seconds', 'int')
        def fin(t, ty):
            if ty != 'int': raise Unsupported('returns a ' + ty)
            return t
        txt = tr.ev(body[0].value, Env({'earlier': 'int', 'later': 'int'}), fin)
    except Unsupported as e:
        raise GenError('_delta_seconds: ' + str(e))
    if 'Exn' in txt: raise GenError('_delta_seconds may raise')
    out.append('Definition gen_delta_seconds (T : Type) (N : num T) (earlier later : T) : T :=\n%s.' % txt)
    ctx.pure.add('delta_seconds')
    for py, coq, params, ret, decos in METHODS:
        fn = method(cls, py)
        if decorators(fn) != decos: raise GenError('%s: decorators %s' % (py, decorators(fn)))
        real = [p for p in params if p[1] is not None]
        plain_args(fn, ['self'] + [p[0] for p in params], [p[2] for p in real if p[2] is not None])
        ignored = {p[0] for p in params if p[1] is None}
        for n in ast.walk(fn):
            if isinstance(n, ast.Name) and n.id in ignored: raise GenError('%s uses its parameter %s' % (py, n.id))
        for p in real:
            if p[0] in RESERVED or p[0].startswith('self_'): raise GenError('parameter name ' + p[0])
        tr = MethodTr(ctx, py, ret)
        try:
            body = tr.block(fn.body, Env({p[0]: p[1] for p in real}))
        except Unsupported as e:
            raise GenError('%s: %s' % (py, e))
        args = ''.join(' (%s : %s)' % (p[0], COQ_TY[p[1]]) for p in real)
        out.append('Definition %s (T : Type) (N : num T) (clk : nat -> T) %s%s : gst T * res (%s) :=\n%s.' % (coq, STATE_PARAMS, args, COQ_TY[ret], body))
        for p in real:
            if p[3] is None: continue
            out.append('Definition %s_default_%s (T : Type) : %s := %s.' % (coq, p[0], COQ_TY[p[1]], p[3]))
        ctx.methods[py] = Sig(coq, [(p[0], p[1], p[3]) for p in real], ret, set(tr.assigned))
    return '\n'.join(out) + '\n'

if __name__ == '__main__':
    import sys
    sys.stdout.write(generate())
