#!/venv/bin/python
"""Regression self-test of the FAIL-CLOSED behaviour of every translator in tools/gen.

  /venv/bin/python tools/gen/selftest_failclosed.py [-v] [-j N] [--only gen_C13] [--gen-dir DIR]

Phase A (unchanged tree, VERIF_REPO or /repo): every generate function of every translator must succeed and
reproduce the committed coq/GenBaseline copy byte for byte.

Phase B (mutations): for every item a translator lists in its FAILCLOSED table (functions, classes, constants,
imports, transcribed shapes) and every applicable edit kind, the edit is applied programmatically to a scratch
copy of the repository (git worktrees under /var/tmp/rc/AUDIT/, one edit at a time per copy, VERIF_REPO-style
redirection of tools/gen/common.REPO), the translator's generate functions that read the item are run in a fresh
process, and the outcome must be
        an exception (GenError / Unsupported / anything: the runner falls back to the baseline)   or
        an output that differs from the unchanged-tree output                                      (regenerated)
never a silently identical output.  All edits keep the module importable and - wherever possible - keep the
behaviour of the code unchanged (identical second definition, transparent wrapper, ...), so that a detection is
the translator's doing and not an accident of the mutated code crashing.

Edit kinds (the numbers of the audit, notes/AUDIT.md):
  1a lru_cache added   1b wrapping decorator (functools.wraps) added   1c an existing decorator removed
  2a second definition of the function   2b name re-bound at the end of the module (f = wrap(f), C.m = wrap(C.m))
  2c class re-bound to a subclass   2d class decorator   2e constant re-bound   2f constant mutated in place
  3  default argument value changed
  4  transcribed helper: statement added / pinned constant changed; module constant changed (specific edits)
  5  base class added / method added to a class whose method set is pinned / ALL_FORMATS -> overriding subclass
  6  imported module name re-bound to another object / import aliases swapped
Exit status 0 iff phase A is clean and no case of phase B is silently identical.
--gen-dir DIR runs the generate functions of the translators found in DIR (e.g. a checkout of an older
tools/gen) against the edits derived from the CURRENT tables: this is how the holes were measured before the fix.
"""
import ast, os, sys, time, pickle, subprocess, importlib, importlib.util, argparse, traceback, multiprocessing, signal

sys.dont_write_bytecode = True
HERE = os.path.dirname(os.path.abspath(__file__))
ROOT = os.path.dirname(os.path.dirname(HERE))
BASELINE = os.path.join(ROOT, 'coq', 'GenBaseline')
REAL = os.environ.get('VERIF_REPO', '/repo')
SCRATCH_ROOT = '/var/tmp/rc/AUDIT'

# translator module -> [(generate function, baseline file)]   (the GEN items of tools/props/*.py + runner.COMMON_GEN)
TRANSLATORS = [
    ('unicode_tables', [('generate', 'Unicode.v')]),
    ('gen_insp', [('generate', 'Insp_Consts.v'), ('generate_code', 'Insp_Code.v')]),
    ('gen_C02_cli', [('generate', 'C02_Cli.v')]),
    ('gen_C04', [('generate', 'C04_Sanitize.v'), ('generate_concrete', 'C04_Concrete.v')]),
    ('gen_C06', [('generate', 'C06_Wrapper.v')]),
    ('gen_C07', [('generate', 'C07_Code.v')]),
    ('gen_C08', [('generate_keys', 'C08_Keys.v'), ('generate_shape', 'C08_Shape.v')]),
    ('gen_C09', [('generate', 'C09_Excutils.v')]),
    ('gen_C10', [('generate', 'C10_Units.v'), ('generate_code', 'C10_Code.v'), ('generate_qemu', 'C10_QemuCode.v')]),
    ('gen_C11', [('generate', 'C11_Netutils.v'), ('generate_code', 'C11_Code.v')]),
    ('gen_C12', [('generate', 'C12_Timeutils.v')]),
    ('gen_C13', [('generate', 'C13_StopWatch.v')]),
    ('gen_C14', [('generate', 'C14.v')]),
    ('gen_C15', [('generate', 'C15_Netutils.v')]),
    ('gen_C16', [('generate_slug', 'C16_Slug.v'), ('generate_code', 'C16_Code.v'), ('generate_fold', 'C16_Fold.v'),
                 ('generate_aliases', 'C16_Aliases.v')]),
    ('gen_versionutils', [('generate', 'Versionutils.v'), ('generate_code', 'VersionutilsCode.v'), ('generate_code17', 'C17_Code.v')]),
    ('gen_C18', [('generate', 'C18_SpecsMatcher.v')]),
    ('gen_C19', [('generate_split_path', 'C19_SplitPath.v'), ('generate_grammar', 'C19_Grammar.v')]),
    ('gen_C20', [('generate_consts', 'C20_Consts.v'), ('generate_code', 'C20_Code.v')]),
]

PRELUDE = '''
import functools as _fc_functools
def _fc_wrap(f):
    @_fc_functools.wraps(f)
    def w(*a, **k):
        return f(*a, **k)
    return w
def _fc_id(x):
    return x
class _FcMixin:
    pass
'''
EPILOGUE = '''
def _fc_rewrap(o):
    if isinstance(o, property): return property(_fc_rewrap(o.fget), o.fset, o.fdel)
    if isinstance(o, staticmethod): return staticmethod(_fc_rewrap(o.__func__))
    if isinstance(o, classmethod): return classmethod(_fc_rewrap(o.__func__))
    def w(*a, **k):
        return o(*a, **k)
    w.__isabstractmethod__ = getattr(o, '__isabstractmethod__', False)
    return w
def _fc_mut(v):
    if isinstance(v, str): return v + '_'
    if isinstance(v, (list, tuple)): return v + v[:1]
    if isinstance(v, dict):
        d = dict(v); d.pop(next(iter(d))); return d
    if isinstance(v, bool): return not v
    if isinstance(v, int): return v + 1
    return v
'''


# ------------------------------------------------------------------ source editing

class Src:
    def __init__(self, text):
        self.text = text
        self.lines = text.split('\n')
        self.tree = ast.parse(text)

    def scope(self, qual):
        parts = qual.split('.')
        body = self.tree.body
        for p in parts[:-1]:
            body = [n for n in body if isinstance(n, ast.ClassDef) and n.name == p][0].body
        return body, parts[-1]

    def fn(self, qual):
        body, name = self.scope(qual)
        return [n for n in body if isinstance(n, ast.FunctionDef) and n.name == name][0]

    def cls(self, name):
        return [n for n in self.tree.body if isinstance(n, ast.ClassDef) and n.name == name][0]

    def assign(self, qual):
        body, name = self.scope(qual)
        return [n for n in body if isinstance(n, ast.Assign) and any(isinstance(t, ast.Name) and t.id == name for t in n.targets)][0]

    def toplevel_of(self, node):
        for n in self.tree.body:
            if n.lineno <= node.lineno <= n.end_lineno:
                return n
        raise KeyError

    def first_line(self, node):
        return min([node.lineno] + [d.lineno for d in getattr(node, 'decorator_list', [])])

    def build(self, inserts=(), replaces=(), prelude_before=None, epilogue=None):
        """inserts: [(line number (1-based) BEFORE which to insert, [lines])]; replaces: [(lineno, col, end_col, new text)]"""
        lines = list(self.lines)
        for ln, c0, c1, new in replaces:
            lines[ln - 1] = lines[ln - 1][:c0] + new + lines[ln - 1][c1:]
        ins = list(inserts)
        if prelude_before is not None:
            ins.append((self.first_line(self.toplevel_of(prelude_before)), PRELUDE.strip('\n').split('\n')))
        # stable: later positions first; for equal positions the prelude (added last) goes first in the file
        for ln, new in sorted(ins, key=lambda x: -x[0]):
            lines[ln - 1:ln - 1] = new
        text = '\n'.join(lines)
        if epilogue:
            text = text.rstrip('\n') + '\n' + EPILOGUE + '\n'.join(epilogue) + '\n'
        return text


def _ind(node):
    return ' ' * node.col_offset


def e_deco(src, q, deco):
    f = src.fn(q)
    return src.build(inserts=[(f.lineno, [_ind(f) + '@' + deco])], prelude_before=f)


def e_deco_remove(src, q, i):
    f = src.fn(q)
    d = f.decorator_list[i]
    if d.lineno != d.end_lineno: return None
    lines = list(src.lines)
    del lines[d.lineno - 1]
    return '\n'.join(lines)


def e_dup_def(src, q):
    f = src.fn(q)
    a, b = src.first_line(f), f.end_lineno
    return src.build(inserts=[(b + 1, [''] + src.lines[a - 1:b])])


def _obj(q):
    p = q.split('.')
    return q if len(p) == 1 else "%s.__dict__['%s']" % (p[0], p[1])


def e_rebind(src, q):
    return src.build(epilogue=['%s = _fc_rewrap(%s)' % (q, _obj(q))])


def _new_default(text):
    if text == 'False': return 'True'
    if text == 'True': return 'False'
    if text == 'None': return '0'
    try:
        v = ast.literal_eval(text)
    except Exception:
        return 'None'
    if isinstance(v, int): return str(v + 1)
    if isinstance(v, str): return repr(v + '_')
    return 'None'


def e_default(src, q, param):
    f = src.fn(q)
    a = f.args
    pos = list(a.posonlyargs) + list(a.args)
    pairs = list(zip(pos[len(pos) - len(a.defaults):], a.defaults)) + [(p, d) for p, d in zip(a.kwonlyargs, a.kw_defaults) if d is not None]
    for p, d in pairs:
        if p.arg == param:
            if d.lineno != d.end_lineno: return None
            return src.build(replaces=[(d.lineno, d.col_offset, d.end_col_offset, _new_default(ast.unparse(d)))])
    return None


def e_class_rebind(src, c):
    return src.build(epilogue=['class _FcSub_%s(%s):' % (c, c), '    pass', '%s = _FcSub_%s' % (c, c)])


def e_class_deco(src, c):
    n = src.cls(c)
    return src.build(inserts=[(n.lineno, [_ind(n) + '@_fc_id'])], prelude_before=n)


def e_class_base(src, c):
    n = src.cls(c)
    line = src.lines[n.lineno - 1]
    head = 'class %s' % c
    i = line.index(head) + len(head)
    if line[i] == '(':
        new = line[:i + 1] + '_FcMixin, ' + line[i + 1:]
    elif line[i] == ':':
        new = line[:i] + '(_FcMixin)' + line[i:]
    else:
        return None
    lines = list(src.lines); lines[n.lineno - 1] = new
    s2 = Src('\n'.join(lines))
    return s2.build(prelude_before=s2.cls(c))


def e_class_method(src, c, name='_fc_extra', body='return None', deco=None, args='self'):
    n = src.cls(c)
    ind = ' ' * n.body[0].col_offset
    new = [''] + ([ind + '@' + deco] if deco else []) + [ind + 'def %s(%s):' % (name, args), ind + '    ' + body]
    return src.build(inserts=[(n.end_lineno + 1, new)])


def e_const_rebind(src, q):
    return src.build(epilogue=['%s = _fc_mut(%s)' % (q, q)])


def e_const_mutate(src, q):
    v = src.assign(q).value
    if isinstance(v, ast.List): return src.build(epilogue=['%s.append(%s[0])' % (q, q)])
    if isinstance(v, ast.Dict): return src.build(epilogue=['%s.pop(next(iter(%s)))' % (q, q)])
    return None


def e_import_rebind(src, name, target):
    node = None
    for n in src.tree.body:
        if isinstance(n, (ast.Import, ast.ImportFrom)) and any((a.asname or a.name.split('.')[0]) == name for a in n.names):
            node = n
    if node is None: return None
    if ':' in target:
        new = ['%s = %s' % (name, name)]
    else:
        new = ['import types as _fc_types',
               "%s = _fc_types.SimpleNamespace(**{_k: getattr(%s, _k) for _k in dir(%s) if not _k.startswith('__')})" % (name, name, name)]
    return src.build(inserts=[(node.end_lineno + 1, new)])


def _body_wo_doc(f):
    b = f.body
    if b and isinstance(b[0], ast.Expr) and isinstance(b[0].value, ast.Constant) and isinstance(b[0].value.value, str):
        return b[1:]
    return b


def e_shape_stmt(src, q):
    f = src.fn(q)
    b = _body_wo_doc(f)
    if not b: return None
    return src.build(inserts=[(b[0].lineno, [' ' * b[0].col_offset + '_fc_shape = 0'])])


def e_shape_const(src, q, index):
    """change the index-th constant (source order, docstring excluded) of q"""
    f = src.fn(q)
    doc = f.body[0].value if _body_wo_doc(f) is not f.body else None
    cs = []
    class V(ast.NodeVisitor):      # same order as failclosed._Holes (NodeTransformer order = generic field order)
        def visit_Constant(self, n):
            if n is not doc: cs.append(n)
    V().visit(f)
    n = cs[index]
    if n.lineno != n.end_lineno: return None
    v = n.value
    if isinstance(v, bool): new = repr(not v)
    elif isinstance(v, int): new = repr(v + 1)
    elif isinstance(v, str): new = repr(v + '_')
    elif isinstance(v, bytes): new = repr(v + b'_')
    elif v is None: new = '0'
    else: return None
    return src.build(replaces=[(n.lineno, n.col_offset, n.end_col_offset, new)])


def e_text(old, new, count=1):
    def f(src):
        if src.text.count(old) != count: return None
        return src.text.replace(old, new)
    return f


def e_append(*lines):
    def f(src):
        return src.text.rstrip('\n') + '\n' + '\n'.join(lines) + '\n'
    return f


# ------------------------------------------------------------------ specific edits (kinds 4, 5, 6 and module constants)
# (translator, generate functions, kind, label, file, edit)
FI = 'oslo_utils/imageutils/format_inspector.py'
SPECIFIC = [
    ('gen_C02_cli', ['generate'], '2a', '__main__: main re-defined after the import', 'oslo_utils/imageutils/__main__.py',
     e_text('from oslo_utils.imageutils.cli import main\n', 'from oslo_utils.imageutils.cli import main\n\ndef main():\n    return 0\n')),
    ('gen_C04', ['generate', 'generate_concrete'], '4', 're.IGNORECASE dropped at the compile site', 'oslo_utils/strutils.py',
     e_text('re.DOTALL | re.IGNORECASE)', 're.DOTALL)', 3)),
    ('gen_C04', ['generate', 'generate_concrete'], '2f', '_SANITIZE_KEYS.remove(...) at the end of the module', 'oslo_utils/strutils.py',
     e_append("_SANITIZE_KEYS.remove('token')")),
    ('gen_C04', ['generate'], '2e', '_FORMAT_PATTERNS_1 re-bound at the end of the module', 'oslo_utils/strutils.py',
     e_append("_FORMAT_PATTERNS_1 = _FORMAT_PATTERNS_1 + [r'(%(key)s=)x+']")),
    ('gen_C08', ['generate_keys'], '2f', '_SANITIZE_KEYS.append(...) at the end of the module', 'oslo_utils/strutils.py',
     e_append("_SANITIZE_KEYS.append('zzz')")),
    ('gen_C06', ['generate'], '2f', "ALL_FORMATS['zzz'] = ... at the end of the module", FI, e_append("ALL_FORMATS['zzz'] = RawFileInspector")),
    ('gen_C12', ['generate'], '4', '_MAX_DATETIME_SEC changed', 'oslo_utils/timeutils.py', e_text('_MAX_DATETIME_SEC = 59', '_MAX_DATETIME_SEC = 58')),
    ('gen_C12', ['generate'], '2e', 'utcnow.override_time initialised twice', 'oslo_utils/timeutils.py', e_append('utcnow.override_time = []')),
    ('gen_C13', ['generate'], '2e', 'now = time.time at the end of the module', 'oslo_utils/timeutils.py', e_append('now = time.time')),
    ('gen_C13', ['generate'], '2b', 'StopWatch.stop = StopWatch.start at the end of the module', 'oslo_utils/timeutils.py',
     e_append('StopWatch.stop = StopWatch.start')),
    ('gen_C13', ['generate'], '2b', "setattr(StopWatch, 'stop', ...) at the end of the module", 'oslo_utils/timeutils.py',
     e_append("setattr(StopWatch, 'stop', StopWatch.start)")),
    ('gen_C14', ['generate'], '2e', 'TRUE_STRINGS re-bound at the end of the module', 'oslo_utils/strutils.py',
     e_append("TRUE_STRINGS = TRUE_STRINGS + ('ja',)")),
    ('gen_C11', ['generate'], '6', 'INET_ATON / INET_PTON import aliases swapped', 'oslo_utils/netutils.py',
     lambda src: src.text.replace('from netaddr.core import INET_ATON\n', 'from netaddr.core import INET_PTON as INET_ATON\n')
                         .replace('from netaddr.core import INET_PTON\n', 'from netaddr.core import INET_ATON as INET_PTON\n')),
    ('gen_C16', ['generate_slug'], '4', 'flag added where SLUGIFY_STRIP_RE is compiled', 'oslo_utils/strutils.py',
     e_text('SLUGIFY_STRIP_RE = re.compile(r"[^\\w\\s-]")', 'SLUGIFY_STRIP_RE = re.compile(r"[^\\w\\s-]", re.ASCII)')),
    ('gen_C16', ['generate_slug'], '2e', 'SLUGIFY_HYPHENATE_RE re-bound at the end of the module', 'oslo_utils/strutils.py',
     e_append('SLUGIFY_HYPHENATE_RE = re.compile(r"[-_\\s]+")')),
    ('gen_versionutils', ['generate'], '4', '.lower() added in convert_version_to_tuple', 'oslo_utils/versionutils.py',
     e_text("version_str.split('.'))", "version_str.lower().split('.'))")),
    ('gen_versionutils', ['generate'], '2f', '_COMP_MAP mutated at the end of the module', 'oslo_utils/versionutils.py',
     e_append("VersionPredicate._COMP_MAP['<'] = operator.le")),
    ('gen_versionutils', ['generate'], '2e', '_PREDICATE_MATCH re-bound at the end of the module', 'oslo_utils/versionutils.py',
     e_append('VersionPredicate._PREDICATE_MATCH = re.compile(r"^\\s*(<=|>=|<|>|==)\\s*([^\\s]+)\\s*$")')),
    ('gen_C18', ['generate'], '2f', "del op_methods['='] at the end of the module", 'oslo_utils/specs_matcher.py', e_append("del op_methods['=']")),
    ('gen_C18', ['generate'], '2f', 'op_methods.update(...) at the end of the module', 'oslo_utils/specs_matcher.py',
     e_append("op_methods.update({'=': operator.eq})")),
    ('gen_C18', ['generate'], '2f', "op_methods['<'] = ... at the end of the module", 'oslo_utils/specs_matcher.py', e_append("op_methods['<'] = operator.le")),
    ('gen_C20', ['generate_consts'], '4', '_DEFAULT_MODE changed', 'oslo_utils/fileutils.py',
     e_text('_DEFAULT_MODE = stat.S_IRWXU | stat.S_IRWXG | stat.S_IRWXO', '_DEFAULT_MODE = stat.S_IRWXU | stat.S_IRWXG')),
    ('gen_insp', ['generate'], '5', "ALL_FORMATS['qcow2'] -> subclass overriding eat_chunk", FI,
     e_append('class _FcQ(QcowInspector):', '    def eat_chunk(self, chunk):', '        pass', "ALL_FORMATS['qcow2'] = _FcQ")),
    ('gen_insp', ['generate'], '5', 'ALL_FORMATS literal maps vhd to a subclass defined before it', FI,
     lambda src: src.text.replace("\nALL_FORMATS = {", "\nclass _FcV(VHDInspector):\n    def complete(self):\n        return True\n\nALL_FORMATS = {")
                         .replace("VHDInspector,\n", "_FcV,\n") if "VHDInspector,\n" in src.text else None),
    ('gen_insp', ['generate'], '2f', 'ALL_FORMATS.update(...) at the end of the module', FI, e_append("ALL_FORMATS.update({'qed': QEDInspector})")),
    ('gen_insp', ['generate'], '4', 'class constant changed (I_FEATURES_MAX_BIT)', FI, e_text('I_FEATURES_MAX_BIT = 4', 'I_FEATURES_MAX_BIT = 5')),
    ('gen_insp', ['generate'], '2e', 'class constant re-bound after the class (QcowInspector.BF_OFFSET)', FI,
     e_append('QcowInspector.BF_OFFSET = QcowInspector.BF_OFFSET + 8')),
]
for _cls in ('QEDInspector', 'VMDKInspector', 'RawFileInspector'):
    for _m, _args, _deco, _body in (('eat_chunk', 'self, chunk', None, 'return super().eat_chunk(chunk)'), ('finish', 'self', None, 'return super().finish()'),
                                    ('complete', 'self', 'property', 'return True'), ('safety_check', 'self', None, 'return True'),
                                    ('_capture', 'self, chunk, only=None', None, 'return None'), ('region_complete', 'self, region_name', None, 'return None')):
        if _cls == 'VMDKInspector' and _m == 'region_complete': continue
        SPECIFIC.append(('gen_insp', ['generate', 'generate_code'], '5', '%s overrides %s' % (_cls, _m), FI,
                         (lambda c, m, a, d, b: (lambda src: e_class_method(src, c, m, b, d, a)))(_cls, _m, _args, _deco, _body)))


# ------------------------------------------------------------------ cases derived from the FAILCLOSED tables

def derive(modname, tables, read):
    """yield (translator, [generate fns], kind, label, file, edit function)"""
    # an item may be listed for several generate functions: merge
    items = {}
    def add(fn, src, key, val):
        items.setdefault((src, key), (val, []))[1].append(fn)
    for fn, specs in tables.items():
        for spec in specs:
            s = spec['src']
            for q, o in (spec.get('functions') or {}).items():
                add(fn, s, ('function', q), o or {})
                if (o or {}).get('defaults') is not None: add(fn, s, ('defaults', q), None)      # only where the defaults matter
            for c, o in (spec.get('classes') or {}).items(): add(fn, s, ('class', c), o or {})
            cs = spec.get('constants') or {}
            for q in cs: add(fn, s, ('constant', q), None)
            for n, t in (spec.get('imports') or {}).items(): add(fn, s, ('import', n), t)
            for q, v in (spec.get('shapes') or {}).items(): add(fn, s, ('shape', q), v)
    for (s, (kind, q)), (val, fns) in items.items():
        fns = sorted(set(fns))
        src = Src(read(s))
        def case(k, label, ed):
            return (modname, fns, k, '%s: %s' % (q, label), s, ed)
        if kind == 'function':
            f = src.fn(q)
            yield case('1a', '@lru_cache added', lambda src, q=q: e_deco(src, q, '_fc_functools.lru_cache(maxsize=None)'))
            yield case('1b', 'wrapping decorator added', lambda src, q=q: e_deco(src, q, '_fc_wrap'))
            for i, d in enumerate(f.decorator_list):
                yield case('1c', '@%s removed' % ast.unparse(d), lambda src, q=q, i=i: e_deco_remove(src, q, i))
            yield case('2a', 'defined twice', lambda src, q=q: e_dup_def(src, q))
            yield case('2b', 're-bound at the end of the module', lambda src, q=q: e_rebind(src, q))
        elif kind == 'defaults':
            f = src.fn(q)
            a = f.args
            pos = list(a.posonlyargs) + list(a.args)
            for p in pos[len(pos) - len(a.defaults):] + [p for p, d in zip(a.kwonlyargs, a.kw_defaults) if d is not None]:
                yield case('3', 'default of %s changed' % p.arg, lambda src, q=q, p=p.arg: e_default(src, q, p))
        elif kind == 'class':
            yield case('2c', 'name re-bound to a subclass', lambda src, q=q: e_class_rebind(src, q))
            yield case('2d', 'class decorator added', lambda src, q=q: e_class_deco(src, q))
            if val.get('bases') is not None:
                yield case('5', 'base class added', lambda src, q=q: e_class_base(src, q))
            if val.get('methods') is not None:
                yield case('5', 'method added', lambda src, q=q: e_class_method(src, q))
        elif kind == 'constant':
            yield case('2e', 're-bound at the end of the module', lambda src, q=q: e_const_rebind(src, q))
            yield case('2f', 'mutated in place', lambda src, q=q: e_const_mutate(src, q))
        elif kind == 'import':
            yield case('6', 'module name re-bound (%s)' % val, lambda src, q=q, t=val: e_import_rebind(src, q, t))
        elif kind == 'shape':
            sha, consts = val
            yield case('4', 'statement added to the transcribed helper', lambda src, q=q: e_shape_stmt(src, q))
            for i, c in enumerate(consts or []):
                if c != '<any>':
                    yield case('4', 'pinned constant #%d changed' % i, lambda src, q=q, i=i: e_shape_const(src, q, i))
                    break


# ------------------------------------------------------------------ running a translator in a fresh process

def run_generate(repo, modname, fnames, gen_dir, timeout=180):
    """fork; in the child point tools/gen/common at `repo`, run the generate functions.  -> {fname: ('ok', text) | ('exc', type, msg)}"""
    r, w = os.pipe()
    pid = os.fork()
    if pid == 0:
        try:
            os.close(r)
            signal.alarm(timeout)
            import warnings; warnings.simplefilter('ignore')
            import common
            common.REPO = repo
            sys.path[:] = [p for p in sys.path if os.path.realpath(p or '.') != os.path.realpath(REAL)]
            sys.path.insert(0, repo)
            os.environ['VERIF_REPO'] = repo
            for k in [k for k in sys.modules if k == 'oslo_utils' or k.startswith('oslo_utils.')]:
                del sys.modules[k]
            out = {}
            try:
                mod = importlib.import_module(modname)
            except Exception as e:
                out = {f: ('exc', 'IMPORT-' + type(e).__name__, str(e)[:300]) for f in fnames}
                mod = None
            for f in (fnames if mod else []):
                try:
                    out[f] = ('ok', getattr(mod, f)())
                except BaseException as e:
                    out[f] = ('exc', type(e).__name__, str(e)[:300])
            # was the edited module importable at all?  (an edit that breaks the import proves nothing)
            imp = {}
            for spec_mod in getattr(run_generate, 'probe', {}).get(modname, []):
                try:
                    importlib.import_module(spec_mod); imp[spec_mod] = None
                except BaseException as e:
                    imp[spec_mod] = '%s: %s' % (type(e).__name__, str(e)[:200])
            os.write(w, pickle.dumps((out, imp)))
        except BaseException:
            try: os.write(w, pickle.dumps(({f: ('exc', 'HARNESS', traceback.format_exc()[-300:]) for f in fnames}, {})))
            except Exception: pass
        finally:
            os._exit(0)
    os.close(w)
    buf = b''
    while True:
        chunk = os.read(r, 1 << 20)
        if not chunk: break
        buf += chunk
    os.close(r)
    os.waitpid(pid, 0)
    if not buf:
        return {f: ('exc', 'CRASH/TIMEOUT', '') for f in fnames}, {}
    return pickle.loads(buf)


_worker = {}

def _init_worker(counter, gen_dir):
    with counter.get_lock():
        i = counter.value; counter.value += 1
    d = os.path.join(SCRATCH_ROOT, 'w%d' % i)
    _worker['dir'] = d
    _worker['gen_dir'] = gen_dir


def _run_case(args):
    idx, modname, fns, rel, newtext = args
    d = _worker['dir']
    p = os.path.join(d, rel)
    orig = open(p).read()
    try:
        open(p, 'w').write(newtext)
        res, imp = run_generate(d, modname, fns, _worker['gen_dir'])
    finally:
        open(p, 'w').write(orig)
    return idx, res, imp


def sh(*cmd):
    return subprocess.run(cmd, stdout=subprocess.PIPE, stderr=subprocess.STDOUT, text=True)


def main():
    ap = argparse.ArgumentParser()
    ap.add_argument('-v', action='store_true', help='print every case')
    ap.add_argument('-j', type=int, default=min(8, os.cpu_count() or 1))
    ap.add_argument('--only', action='append', help='translator module(s) to test')
    ap.add_argument('--gen-dir', default=HERE, help='directory holding the translators whose generate functions are run')
    ap.add_argument('--keep', action='store_true', help='keep the scratch worktrees')
    a = ap.parse_args()
    t0 = time.time()
    gen_dir = os.path.abspath(a.gen_dir)
    sys.path[:] = [p for p in sys.path if os.path.realpath(p or '.') not in (os.path.realpath(REAL),)]
    for p in (HERE, gen_dir):
        if p in sys.path: sys.path.remove(p)
    sys.path.insert(0, HERE)
    if gen_dir != HERE: sys.path.insert(0, gen_dir)
    os.environ['VERIF_REPO'] = REAL
    todo = [t for t in TRANSLATORS if not a.only or t[0] in a.only]
    # the tables always come from the CURRENT translators (tools/gen), the generate functions from --gen-dir
    tables, probe = {}, {}
    for modname, _ in todo:
        path = os.path.join(HERE, modname + '.py')
        if gen_dir == HERE:
            m = importlib.import_module(modname)
        else:
            sp = importlib.util.spec_from_file_location('current_' + modname, path)
            m = importlib.util.module_from_spec(sp); sp.loader.exec_module(m)
            importlib.import_module(modname)         # the old translator, imported before the fork
        tables[modname] = getattr(m, 'FAILCLOSED', {})
        probe[modname] = sorted({s['mod'] for specs in tables[modname].values() for s in specs if s.get('mod')})
    run_generate.probe = probe
    assert not any(k == 'oslo_utils' or k.startswith('oslo_utils.') for k in sys.modules), 'the parent must not import oslo_utils'

    # ---------------- phase A
    print('== phase A: unchanged tree %s: every generate function succeeds and reproduces coq/GenBaseline byte for byte' % REAL)
    ref, bad_a = {}, []
    for modname, items in todo:
        res, _ = run_generate(REAL, modname, [f for f, _ in items], gen_dir)
        for f, base in items:
            r = res[f]
            if r[0] != 'ok':
                bad_a.append('%s.%s raises %s: %s' % (modname, f, r[1], r[2])); status = 'RAISES %s' % r[1]
            else:
                ref[(modname, f)] = r[1]
                same = open(os.path.join(BASELINE, base)).read() == r[1]
                status = 'ok, = GenBaseline/%s' % base if same else 'DIFFERS from GenBaseline/%s' % base
                if not same: bad_a.append('%s.%s differs from GenBaseline/%s' % (modname, f, base))
            print('  %-18s %-20s %s' % (modname, f, status))
    if bad_a:
        print('PHASE A FAILED:\n  ' + '\n  '.join(bad_a))

    # ---------------- phase B
    def read(rel):
        return open(os.path.join(REAL, rel)).read()
    cases = []
    for modname, _ in todo:
        for c in derive(modname, tables[modname], read):
            cases.append(c)
        cases += [c for c in SPECIFIC if c[0] == modname]
    jobs, skipped = [], []
    for i, (modname, fns, kind, label, rel, ed) in enumerate(cases):
        try:
            new = ed(Src(read(rel)))
        except Exception as e:
            new = None; label += ' [edit failed: %s]' % e
        if new is None or new == read(rel):
            skipped.append((modname, kind, label)); continue
        try:
            ast.parse(new)
        except SyntaxError as e:
            skipped.append((modname, kind, label + ' [edit does not parse: %s]' % e)); continue
        jobs.append((i, modname, fns, rel, new))
    print('== phase B: %d edits (%d not applicable), %d scratch worktrees under %s' % (len(jobs), len(skipped), a.j, SCRATCH_ROOT))
    os.makedirs(SCRATCH_ROOT, exist_ok=True)
    for i in range(a.j):
        d = os.path.join(SCRATCH_ROOT, 'w%d' % i)
        sh('git', '-C', REAL, 'worktree', 'remove', '--force', d)
        r = sh('git', '-C', REAL, 'worktree', 'add', '--detach', d, 'HEAD')
        if r.returncode != 0:
            print(r.stdout); sys.exit(2)
    results = {}
    try:
        ctx = multiprocessing.get_context('fork')
        counter = ctx.Value('i', 0)
        with ctx.Pool(a.j, initializer=_init_worker, initargs=(counter, gen_dir)) as pool:
            for idx, res, imp in pool.imap_unordered(_run_case, jobs, chunksize=4):
                results[idx] = (res, imp)
    finally:
        if not a.keep:
            for i in range(a.j):
                sh('git', '-C', REAL, 'worktree', 'remove', '--force', os.path.join(SCRATCH_ROOT, 'w%d' % i))
            try: os.rmdir(SCRATCH_ROOT)
            except OSError: pass

    silent, broken, rows = [], [], []
    summary = {}
    for i, modname, fns, rel, new in jobs:
        _, _, kind, label, _, _ = cases[i]
        res, imp = results[i]
        broke = [m for m, e in imp.items() if e]
        outs = []
        for f in fns:
            r = res[f]
            if (modname, f) not in ref:
                outs.append('%s: no reference' % f); continue
            if r[0] == 'exc':
                tag = r[1] if r[1] in ('GenError', 'Unsupported', 'Un') else 'exc:' + r[1]
                outs.append('%s: %s (%s)' % (f, tag, r[2][:70].replace('\n', ' ')))
                cell = 'refused'
            elif r[1] != ref[(modname, f)]:
                outs.append('%s: regenerated differently' % f); cell = 'regenerated'
            else:
                outs.append('%s: SILENT (identical output)' % f); cell = 'SILENT'
                silent.append('%s [%s] %s -> %s' % (modname, kind, label, f))
            if broke: cell = 'broken-edit'
            summary.setdefault((modname, kind), {}).setdefault(cell, 0)
            summary[(modname, kind)][cell] += 1
        if broke:
            broken.append('%s [%s] %s: the edited module does not import (%s)' % (modname, kind, label, imp[broke[0]]))
        rows.append('  %-16s %-3s %-70s %s' % (modname, kind, label[:70], ' | '.join(outs)))
    if a.v:
        print('\n'.join(rows))
    print('== summary (cases per translator and edit kind: refused = exception -> baseline fallback, regenerated = output differs)')
    kinds = ['1a', '1b', '1c', '2a', '2b', '2c', '2d', '2e', '2f', '3', '4', '5', '6']
    print('  %-18s' % 'translator' + ''.join('%-9s' % k for k in kinds))
    for modname, _ in todo:
        line = '  %-18s' % modname
        for k in kinds:
            d = summary.get((modname, k))
            if not d: line += '%-9s' % '-'; continue
            ok = d.get('refused', 0); rg = d.get('regenerated', 0); si = d.get('SILENT', 0); br = d.get('broken-edit', 0)
            cell = '%dr' % ok + ('+%dd' % rg if rg else '') + ('!%dS' % si if si else '') + ('?%db' % br if br else '')
            line += '%-9s' % cell
        print(line)
    print('  (Nr = N refused, +Nd = N regenerated differently, !NS = N SILENT, ?Nb = N edits that broke the import)')
    if skipped and a.v:
        print('== not applicable: ' + '; '.join('%s[%s] %s' % s for s in skipped))
    if broken:
        print('== EDITS THAT BROKE THE IMPORT (prove nothing, fix the self-test):\n  ' + '\n  '.join(broken))
    if silent:
        print('== SILENT-IDENTICAL CASES (holes):\n  ' + '\n  '.join(silent))
    print('== %d edits, %d silent, %d broken edits, phase A %s, %.0f s' % (len(jobs), len(silent), len(broken), 'FAILED' if bad_a else 'ok', time.time() - t0))
    sys.exit(1 if (bad_a or silent or broken) else 0)


if __name__ == '__main__':
    main()
