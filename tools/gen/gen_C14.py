"""Gen/C14.v from oslo_utils/strutils.py and oslo_utils/uuidutils.py:
  * TRUE_STRINGS / FALSE_STRINGS (evaluated values of the imported module);
  * statement-level translations (py2gal subset, extended below) of bool_from_string,
    int_from_bool_as_string, is_valid_boolstr, is_int_like, check_string_length,
    validate_integer, _format_uuid_string, is_uuid_like, generate_uuid.

Extensions over tools/gen/py2gal.py (kept in this file; py2gal.py itself is untouched):
  - a dynamic value type 'pyval' (Model/C14_Py.v) with isinstance(x, str|bool) tests and
    narrowing of `if not isinstance(x, str): ...`;
  - raising calls anywhere in an expression are hoisted, in evaluation order, into
    `match call with Exn e => <handler> | Ok t => ...` (never from under and/or/if-expressions);
  - try/except around a block (handler bound once as a local function);
  - `X is not None and ...` / truthiness of an optional int inside `and`;
  - str methods strip/lower/replace, `in` on tuples of strings, tuple concatenation;
  - names that only feed exception messages (`msg`, `name`, `acceptable`) are dropped, and every
    use of them outside a message makes the translation fail;
  - Python locals are mangled to v_<name>.
Fail-closed: anything else raises GenError (the runner then uses GenBaseline/C14.v).
"""
import ast, builtins
from common import *
import py2gal
from py2gal import Unsupported
import failclosed

# the translated functions: one undecorated definition each, bound to its name at run time, with the defaults the model relies on
# (tools/gen/failclosed.py); `uuid` the real module
_NOD = {'defaults': {}}
FAILCLOSED = {'generate': [
    {'src': 'oslo_utils/strutils.py', 'mod': 'oslo_utils.strutils',
     'functions': {'bool_from_string': {'defaults': {'strict': 'False', 'default': 'False'}}, 'int_from_bool_as_string': _NOD,
                   'is_valid_boolstr': _NOD, 'is_int_like': _NOD,
                   'check_string_length': {'defaults': {'name': 'None', 'min_length': '0', 'max_length': 'None'}},
                   'validate_integer': {'defaults': {'min_value': 'None', 'max_value': 'None'}}}},
    {'src': 'oslo_utils/uuidutils.py', 'mod': 'oslo_utils.uuidutils',
     'functions': {'_format_uuid_string': _NOD, 'is_uuid_like': _NOD, 'generate_uuid': {'defaults': {'dashed': 'True'}}},
     'imports': {'uuid': 'uuid'}}]}

COQ_TY = dict(py2gal.COQ_TY)
COQ_TY.update({'pyval': 'pyval', 'uuid': 'N'})
ENUM = {'ValueError', 'TypeError', 'AttributeError', 'OverflowError', 'KeyError', 'IndexError', 'RuntimeError'}

class EndTry(ast.stmt):
    _fields = ()

class UserFn:
    def __init__(self, coq, params, defaults, ret, raises):
        self.coq, self.params, self.defaults, self.ret, self.raises = coq, params, defaults, ret, raises

class Tr(py2gal.Translator):
    def __init__(self, params, funcs=None, consts=None, ret_type=None, ignored=()):
        super().__init__(params, None, {}, consts, 'self', ret_type, ENUM, None)
        self.user = dict(funcs or {})
        self.ignored = set(ignored)
        self.pending = []
        self.tmp = 0
        self.handlers = []
        self.hid = 0
        self.nohoist = 0

    # ------------------------------------------------------------ helpers
    def hoist(self, call, ty):
        if self.nohoist: raise Unsupported('raising call under and/or/conditional expression')
        self.raises = True
        self.tmp += 1
        n = 't%d__' % self.tmp
        self.pending.append((n, call))
        return n, ty

    def take(self):
        p, self.pending = self.pending, []
        return p

    def on_exn(self, e):
        return '(%s %s)' % (self.handlers[-1], e) if self.handlers else 'RAISE(%s)' % e

    def wrap(self, binds, h, body):
        for n, call in reversed(binds):
            body = 'match %s with Exn e__ => %s | Ok %s =>\n%s end' % (call, h, n, body)
        return body

    def lit(self, s):
        return '([%s]%%N : bytes)' % ';'.join(str(ord(c)) for c in s)

    # ------------------------------------------------------------ expressions
    def expr(self, e):
        t = self.src(e)
        if t in self.consts:
            return self.consts[t]
        if isinstance(e, ast.Name):
            if e.id in self.ignored: raise Unsupported('message-only name %s used as a value' % e.id)
            if e.id not in self.types: raise Unsupported('unknown name ' + e.id)
            return 'v_' + e.id, self.types[e.id]
        if isinstance(e, ast.Constant) and isinstance(e.value, str):
            return self.lit(e.value), 'bytes'
        if isinstance(e, ast.BoolOp):
            if isinstance(e.op, ast.And):
                return self.and_chain(list(e.values))
            self.nohoist += 1
            try: return super().expr(e)
            finally: self.nohoist -= 1
        if isinstance(e, ast.IfExp):
            self.nohoist += 1
            try: return super().expr(e)
            finally: self.nohoist -= 1
        if isinstance(e, ast.Compare) and len(e.ops) == 1 and isinstance(e.ops[0], (ast.In, ast.NotIn)):
            a, ta = self.expr(e.left); b, tb = self.expr(e.comparators[0])
            if ta != 'bytes' or tb != 'strlist': raise Unsupported('in on %s, %s' % (ta, tb))
            r = '(mem_str %s %s)' % (a, b)
            return (r if isinstance(e.ops[0], ast.In) else '(negb %s)' % r), 'bool'
        if isinstance(e, ast.BinOp) and isinstance(e.op, ast.Add):
            a, ta = self.expr(e.left); b, tb = self.expr(e.right)
            if ta == tb == 'strlist': return '(%s ++ %s)' % (a, b), 'strlist'
            if ta == tb == 'bytes': return '(%s ++ %s)' % (a, b), 'bytes'
            if ta == tb == 'int': return '(%s + %s)' % (a, b), 'int'
            raise Unsupported('+ on %s, %s' % (ta, tb))
        if isinstance(e, ast.Attribute):
            v, tv = self.expr(e.value)
            if tv == 'uuid' and e.attr == 'hex': return '(uuid_hex %s)' % v, 'bytes'
            raise Unsupported('attribute ' + t)
        if isinstance(e, ast.Call):
            return self.call_expr(e)
        return super().expr(e)

    def and_chain(self, vals):
        first, rest = vals[0], vals[1:]
        def tail():
            if not rest: return 'true'
            self.nohoist += 1
            try:
                r, tr = self.and_chain(rest)
            finally:
                self.nohoist -= 1
            return r
        if isinstance(first, ast.Compare) and len(first.ops) == 1 and isinstance(first.ops[0], ast.IsNot) \
                and isinstance(first.comparators[0], ast.Constant) and first.comparators[0].value is None:
            x, tx = self.expr(first.left)
            if tx != 'optint': raise Unsupported('is not None on ' + tx)
            key = self.src(first.left); var = 'some_' + ''.join(ch if ch.isalnum() else '_' for ch in key)
            saved = dict(self.consts); self.consts[key] = (var, 'int')
            try: r = tail()
            finally: self.consts = saved
            return '(match %s with Some %s => %s | None => false end)' % (x, var, r), 'bool'
        if isinstance(first, ast.Name) and self.types.get(first.id) == 'optint' and first.id not in self.consts:
            # truthiness of an optional int: neither None nor 0
            x, _ = self.expr(first)
            var = 'some_' + first.id
            saved = dict(self.consts); self.consts[first.id] = (var, 'int')
            try: r = tail()
            finally: self.consts = saved
            return '(match %s with Some %s => (negb (%s =? 0) && %s) | None => false end)' % (x, var, var, r), 'bool'
        a, ta = self.expr(first)
        if ta != 'bool': raise Unsupported('and on ' + ta)
        if not rest: return a, 'bool'
        return '(%s && %s)' % (a, tail()), 'bool'

    def as_str(self, v, tv):
        """receiver / argument that must be a str"""
        if tv == 'bytes': return v
        if tv == 'pyval': return self.hoist('need_str %s' % v, 'bytes')[0]
        raise Unsupported('str expected, got ' + tv)

    def call_expr(self, e):
        fn = self.src(e.func)
        if e.keywords: raise Unsupported('keyword arguments: ' + self.src(e))
        if fn == 'isinstance' and len(e.args) == 2 and isinstance(e.args[1], ast.Name) and e.args[1].id in ('bool', 'str'):
            a, ta = self.expr(e.args[0])
            if ta != 'pyval': raise Unsupported('isinstance on ' + ta)
            return '(is_%s %s)' % (e.args[1].id, a), 'bool'
        if fn == 'str' and len(e.args) == 1:
            a, ta = self.expr(e.args[0])
            if ta == 'pyval': return self.hoist('py_str lim %s' % a, 'bytes')
            if ta == 'int': return self.hoist('str_of_int lim %s' % a, 'bytes')
            if ta == 'uuid': return '(uuid_str %s)' % a, 'bytes'
            if ta == 'bytes': return a, 'bytes'
            raise Unsupported('str of ' + ta)
        if fn == 'int' and len(e.args) == 1:
            a, ta = self.expr(e.args[0])
            if ta == 'pyval': return self.hoist('py_int_of lim %s' % a, 'int')
            if ta == 'bytes': return self.hoist('py_int_of lim (PStr %s)' % a, 'int')
            if ta == 'int': return a, 'int'
            raise Unsupported('int of ' + ta)
        if fn == 'uuid.UUID' and len(e.args) == 1:
            a, ta = self.expr(e.args[0])
            if ta == 'bytes': a, ta = '(PStr %s)' % a, 'pyval'
            if ta != 'pyval': raise Unsupported('uuid.UUID of ' + ta)
            return self.hoist('uuid_UUID lim %s' % a, 'uuid')
        if fn == 'len' and len(e.args) == 1:
            a, ta = self.expr(e.args[0])
            if ta != 'bytes': raise Unsupported('len of ' + ta)
            return '(zlen %s)' % a, 'int'
        if fn in self.user:
            f = self.user[fn]
            if len(e.args) > len(f.params): raise Unsupported('arity of ' + fn)
            args = []
            for i, (pn, pt) in enumerate(f.params):
                if i < len(e.args):
                    a, ta = self.expr(e.args[i])
                    if pt == 'bytes' and ta == 'pyval': a = self.as_str(a, ta)
                    elif pt == 'pyval' and ta == 'bytes': a = '(PStr %s)' % a
                    elif pt == 'pyval' and ta == 'bool': a = '(PBool %s)' % a
                    elif pt == 'pyval' and ta == 'int': a = '(PInt %s)' % a
                    elif ta != pt: raise Unsupported('argument %s of %s: %s for %s' % (pn, fn, ta, pt))
                    args.append(a)
                else:
                    if pn not in f.defaults: raise Unsupported('missing argument %s of %s' % (pn, fn))
                    args.append(f.defaults[pn])
            call = '%s lim%s' % (f.coq, ''.join(' ' + a for a in args))
            if f.raises: return self.hoist(call, f.ret)
            return '(%s)' % call, f.ret
        if isinstance(e.func, ast.Attribute):
            recv, tr = self.expr(e.func.value)
            m = e.func.attr
            if tr in ('bytes', 'pyval') and m in ('strip', 'lower', 'replace'):
                recv = self.as_str(recv, tr)
                args = [self.expr(a) for a in e.args]
                if any(ta != 'bytes' for _, ta in args): raise Unsupported('str method argument')
                if m == 'strip' and not args: return '(strip %s)' % recv, 'bytes'
                if m == 'strip' and len(args) == 1: return '(strip_chars %s %s)' % (args[0][0], recv), 'bytes'
                if m == 'lower' and not args: return '(py_lower %s)' % recv, 'bytes'
                if m == 'replace' and len(args) == 2:
                    if not (isinstance(e.args[0], ast.Constant) and isinstance(e.args[0].value, str) and e.args[0].value):
                        raise Unsupported('replace of a non-constant or empty pattern')
                    return '(replace %s %s %s)' % (args[0][0], args[1][0], recv), 'bytes'
            raise Unsupported('method call ' + self.src(e))
        raise Unsupported('call ' + self.src(e))

    # ------------------------------------------------------------ statements
    def ret(self, valtext, valty):
        if self.ret_type == 'pyval' and valty == 'bool': valtext, valty = '(PBool %s)' % valtext, 'pyval'
        if self.ret_type == 'pyval' and valty == 'bytes': valtext, valty = '(PStr %s)' % valtext, 'pyval'
        if self.ret_type is None: self.ret_type = valty
        if valty != self.ret_type: raise Unsupported('return type %s vs %s' % (valty, self.ret_type))
        return 'RET(%s)' % valtext

    def bind_target(self, tgt, ty):
        if not isinstance(tgt, ast.Name): raise Unsupported('assignment target ' + self.src(tgt))
        if tgt.id in self.ignored: raise Unsupported('assignment of a value to message-only name ' + tgt.id)
        self.consts.pop(tgt.id, None)          # a narrowed name is rebound
        self.types[tgt.id] = ty                # Python rebinding = Coq shadowing (no loops in this subset)
        return 'v_' + tgt.id

    def message_only(self, value):
        """the right-hand side of an assignment to a message-only name: formatting, nothing observable"""
        for n in ast.walk(value):
            if isinstance(n, ast.Call):
                f = self.src(n.func)
                if not (f in ('_', 'sorted') or (isinstance(n.func, ast.Attribute) and n.func.attr == 'join'
                                                 and isinstance(n.func.value, ast.Constant))):
                    raise Unsupported('call %s in a message' % f)
            elif isinstance(n, (ast.Lambda, ast.Await, ast.Yield, ast.YieldFrom, ast.NamedExpr, ast.Subscript, ast.Attribute)) \
                    and not (isinstance(n, ast.Attribute) and n.attr == 'join'):
                raise Unsupported('message expression ' + self.src(n))

    def snapshot(self):
        return dict(self.types), dict(self.consts), list(self.handlers)
    def restore(self, s):
        self.types, self.consts, self.handlers = dict(s[0]), dict(s[1]), list(s[2])

    def block(self, stmts):
        if self.pending: raise Unsupported('internal: pending bindings at a statement boundary')
        if not stmts:
            return self.ret('tt', 'none')
        s, rest = stmts[0], stmts[1:]
        if isinstance(s, EndTry):
            self.handlers.pop()
            return self.block(rest)
        if isinstance(s, ast.Expr) and isinstance(s.value, ast.Constant) and isinstance(s.value.value, str):
            return self.block(rest)
        if isinstance(s, ast.Pass):
            return self.block(rest)
        if isinstance(s, ast.Assign) and len(s.targets) == 1 and isinstance(s.targets[0], ast.Name) and s.targets[0].id in self.ignored:
            self.message_only(s.value)
            return self.block(rest)
        if isinstance(s, ast.If) and not s.orelse and isinstance(s.test, ast.Compare) and isinstance(s.test.left, ast.Name) \
                and s.test.left.id in self.ignored and len(s.test.ops) == 1 and isinstance(s.test.ops[0], (ast.Is, ast.IsNot)) \
                and all(isinstance(b, ast.Assign) and len(b.targets) == 1 and isinstance(b.targets[0], ast.Name)
                        and b.targets[0].id in self.ignored and isinstance(b.value, (ast.Name, ast.Constant)) for b in s.body):
            return self.block(rest)
        if isinstance(s, ast.Return):
            if s.value is None: return self.ret('tt', 'none')
            v, ty = self.expr(s.value)
            binds = self.take(); h = self.on_exn('e__')
            return self.wrap(binds, h, self.ret(v, ty))
        if isinstance(s, ast.Raise):
            self.raises = True
            exc = s.exc
            name = exc.func.id if isinstance(exc, ast.Call) and isinstance(exc.func, ast.Name) else (exc.id if isinstance(exc, ast.Name) else None)
            if name not in ENUM: raise Unsupported('raise of ' + self.src(s))
            if isinstance(exc, ast.Call):
                for a in exc.args:
                    if not (isinstance(a, ast.Name) and a.id in self.ignored): self.message_only(a)
            return self.on_exn(name)
        if isinstance(s, ast.Assign) and len(s.targets) == 1:
            v, ty = self.expr(s.value)
            binds = self.take(); h = self.on_exn('e__')
            name = self.bind_target(s.targets[0], ty)
            return self.wrap(binds, h, 'let %s := %s in\n%s' % (name, v, self.block(rest)))
        if isinstance(s, ast.If):
            t = s.test
            # if not isinstance(x, str): ...   narrows x to str in the other branch
            if isinstance(t, ast.UnaryOp) and isinstance(t.op, ast.Not) and isinstance(t.operand, ast.Call) \
                    and self.src(t.operand.func) == 'isinstance' and len(t.operand.args) == 2 and not s.orelse \
                    and isinstance(t.operand.args[0], ast.Name) and isinstance(t.operand.args[1], ast.Name) \
                    and t.operand.args[1].id == 'str' and self.types.get(t.operand.args[0].id) == 'pyval' \
                    and t.operand.args[0].id not in self.consts:
                x = t.operand.args[0].id
                snap = self.snapshot()
                self.consts[x] = ('s_' + x, 'bytes')
                a = self.block(rest)
                self.restore(snap)
                b = self.block(s.body + rest)
                self.restore(snap)
                return 'match v_%s with PStr s_%s => (\n%s) | _ => (\n%s) end' % (x, x, a, b)
            c, tc = self.expr(t)
            if tc != 'bool': raise Unsupported('if on non-bool: ' + self.src(t))
            binds = self.take(); h = self.on_exn('e__')
            snap = self.snapshot()
            a = self.block(s.body + rest)
            self.restore(snap)
            b = self.block(s.orelse + rest)
            self.restore(snap)
            return self.wrap(binds, h, 'if %s then (\n%s) else (\n%s)' % (c, a, b))
        if isinstance(s, ast.Try):
            return self.try_(s, rest)
        raise Unsupported(ast.dump(s)[:100])

    def try_(self, s, rest):
        if s.orelse or s.finalbody or len(s.handlers) != 1 or s.handlers[0].name is not None:
            raise Unsupported('try shape')
        h = s.handlers[0]
        if h.type is None: raise Unsupported('bare except')
        names = [self.src(x) for x in (h.type.elts if isinstance(h.type, ast.Tuple) else [h.type])]
        keep = []
        for n in names:
            if n in ENUM: keep.append(n); continue
            cls = getattr(builtins, n, None)
            # a class outside the modelled enum is dropped only when a listed modelled class is its base
            if isinstance(cls, type) and any(m in ENUM and issubclass(cls, getattr(builtins, m)) for m in names):
                continue
            raise Unsupported('except class ' + n)
        self.raises = True
        self.hid += 1
        hname = 'handle%d__' % self.hid
        snap = self.snapshot()
        outer = self.on_exn('e__')
        handler = self.block(h.body + rest)
        self.restore(snap)
        self.handlers.append(hname)
        body = self.block(s.body + [EndTry()] + rest)
        self.restore(snap)
        test = 'catches [%s] e__' % '; '.join(keep)
        return 'let %s := fun e__ : exn => if %s then (\n%s) else %s in\n%s' % (hname, test, handler, outer, body)

def translate(fndef, coqname, params, user=None, consts=None, ret_type=None, ignored=(), extra_params=()):
    """params: [(pyname, type)] for every Python parameter, in order; type 'ignored' = message-only"""
    argn = [a.arg for a in fndef.args.args]
    if argn != [p for p, _ in params]:
        raise Unsupported('signature of %s changed: %s' % (fndef.name, argn))
    if fndef.args.vararg or fndef.args.kwarg or fndef.args.kwonlyargs or fndef.args.posonlyargs: raise Unsupported('varargs')
    ign = set(ignored) | {p for p, t in params if t == 'ignored'}
    real = [(p, t) for p, t in params if t != 'ignored']
    tr = Tr(real, user, consts, ret_type, ign)
    tr.name = coqname
    body = tr.block(list(fndef.body))
    if tr.ret_type is None: tr.ret_type = 'none'
    rty = COQ_TY[tr.ret_type]
    if tr.raises:
        body = body.replace('RET(', 'Ok (').replace('RAISE(', 'Exn (')
        rty = 'res (%s)' % rty
    else:
        body = body.replace('RET(', '(')
    args = ' (lim : N)' + ''.join(' (%s : %s)' % (n, t) for n, t in extra_params) + ''.join(' (v_%s : %s)' % (p, COQ_TY[t]) for p, t in real)
    text = 'Definition %s%s : %s :=\n%s.\n' % (coqname, args, rty, body)
    # defaults of the Python signature (constants only), for callers inside the translated code
    defaults = {}
    ds = fndef.args.defaults
    pos = fndef.args.args
    for a, d in zip(pos[len(pos) - len(ds):], ds):
        t = dict(params).get(a.arg)
        if isinstance(d, ast.Constant):
            v = d.value
            if t == 'bool' and isinstance(v, bool): defaults[a.arg] = 'true' if v else 'false'
            elif t == 'pyval' and isinstance(v, bool): defaults[a.arg] = '(PBool %s)' % ('true' if v else 'false')
            elif t == 'pyval' and v is None: defaults[a.arg] = 'PNone'
            elif t == 'optint' and v is None: defaults[a.arg] = 'None'
            elif t == 'optint' and isinstance(v, int): defaults[a.arg] = '(Some (%d))' % v
            elif t == 'int' and isinstance(v, int) and not isinstance(v, bool): defaults[a.arg] = '(%d)' % v
    return text, UserFn(coqname, real, defaults, tr.ret_type, tr.raises), defaults

def strs(t, what):
    if not isinstance(t, tuple) or not all(isinstance(x, str) for x in t):
        raise GenError('%s is not a tuple of str' % what)
    return '[%s]' % '; '.join(lit(x) for x in t)

def generate():
    failclosed.check_all(FAILCLOSED['generate'])
    m = repo_import('oslo_utils.strutils')
    repo_import('oslo_utils.uuidutils')
    st = repo_ast('oslo_utils/strutils.py')
    ut = repo_ast('oslo_utils/uuidutils.py')
    out = [HEADER % ('oslo_utils/strutils.py, oslo_utils/uuidutils.py', 'tools/gen/gen_C14.py')]
    out.append('Require Import OV.Base.Bytes OV.Base.Py OV.Base.PyInt OV.Base.Str OV.Model.C14_Py.')
    out.append('Open Scope N_scope.')
    out.append('Definition TRUE_STRINGS : list str := %s.' % strs(m.TRUE_STRINGS, 'TRUE_STRINGS'))
    out.append('Definition FALSE_STRINGS : list str := %s.' % strs(m.FALSE_STRINGS, 'FALSE_STRINGS'))
    out.append('Fixpoint mem_str (x : str) (l : list str) : bool := match l with [] => false | y :: t => beq x y || mem_str x t end.')
    out.append('Open Scope Z_scope.')
    words = {'TRUE_STRINGS': ('TRUE_STRINGS', 'strlist'), 'FALSE_STRINGS': ('FALSE_STRINGS', 'strlist')}
    sig = {}
    try:
        user = {}
        def tr(tree, pyname, coqname, params, **kw):
            text, fn, defaults = translate(py2gal.get_fndef(tree, pyname), coqname, params, user=dict(user), **kw)
            user[pyname] = fn
            sig[pyname] = defaults
            out.append(text)
        tr(st, 'bool_from_string', 'gen_bool_from_string', [('subject', 'pyval'), ('strict', 'bool'), ('default', 'pyval')],
           consts=dict(words), ret_type='pyval', ignored=('msg', 'acceptable'))
        tr(st, 'int_from_bool_as_string', 'gen_int_from_bool_as_string', [('subject', 'pyval')], consts=dict(words))
        tr(st, 'is_valid_boolstr', 'gen_is_valid_boolstr', [('value', 'pyval')], consts=dict(words))
        tr(st, 'is_int_like', 'gen_is_int_like', [('val', 'pyval')])
        tr(st, 'check_string_length', 'gen_check_string_length',
           [('value', 'pyval'), ('name', 'ignored'), ('min_length', 'int'), ('max_length', 'optint')], ignored=('msg',))
        tr(st, 'validate_integer', 'gen_validate_integer',
           [('value', 'pyval'), ('name', 'ignored'), ('min_value', 'optint'), ('max_value', 'optint')], ignored=('msg',))
        tr(ut, '_format_uuid_string', 'gen_format_uuid_string', [('string', 'bytes')])
        tr(ut, 'is_uuid_like', 'gen_is_uuid_like', [('val', 'pyval')])
        tr(ut, 'generate_uuid', 'gen_generate_uuid', [('dashed', 'bool')],
           consts={'uuid.uuid4()': ('u4', 'uuid')}, extra_params=[('u4', 'N')])
    except Unsupported as e:
        raise GenError('C14 code: ' + str(e))
    # the defaults of the Python signatures the model relies on
    want = {'bool_from_string': {'strict': 'false', 'default': '(PBool false)'},
            'check_string_length': {'min_length': '(0)', 'max_length': 'None'},
            'validate_integer': {'min_value': 'None', 'max_value': 'None'}}
    for f, d in want.items():
        if sig.get(f) != d: raise GenError('default arguments of %s changed: %s' % (f, sig.get(f)))
    return '\n'.join(out) + '\n'

if __name__ == '__main__':
    import sys
    sys.stdout.write(generate())
