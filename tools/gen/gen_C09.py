"""Gen/C09_Excutils.v from oslo_utils/excutils.py and oslo_utils/fileutils.py.

Statement-level translation of the exception helpers into the helper language of
coq/Base/C09_HL.v.  Fail-closed: any statement or expression outside the recognised
subset raises GenError (the run then uses the committed baseline and the tie rests on the
correspondence check)."""
import ast
from common import *
import failclosed

# every method / function read below must be the one definition bound to its name, undecorated (remove_path_on_error: exactly
# contextlib.contextmanager), the classes plain, the module names the real modules (tools/gen/failclosed.py)
_S, _F, _ANY = 'save_and_reraise_exception.', 'exception_filter.', failclosed.ANY
FAILCLOSED = {'generate': [
    {'src': 'oslo_utils/excutils.py', 'mod': 'oslo_utils.excutils',
     'classes': {'save_and_reraise_exception': {'bases': []}, 'exception_filter': {'bases': []}},
     'functions': {_S + '__init__': {'defaults': {'reraise': _ANY, 'logger': 'None'}}, _S + 'force_reraise': {'defaults': {}},
                   _S + 'capture': {'defaults': {'check': _ANY}}, _S + '__enter__': {'defaults': {}}, _S + '__exit__': {'defaults': {}},
                   _F + '__init__': {'defaults': {}}, _F + '__get__': {'defaults': {}}, _F + '__enter__': {'defaults': {}},
                   _F + '__exit__': {'defaults': {}}, _F + '__call__': {'defaults': {}}, 'raise_with_cause': {'defaults': {}}},
     'imports': {'sys': 'sys', 'traceback': 'traceback', 'functools': 'functools', 'logging': 'logging'}},
    {'src': 'oslo_utils/fileutils.py', 'mod': 'oslo_utils.fileutils',
     'functions': {'remove_path_on_error': {'decorators': ['contextlib.contextmanager'], 'defaults': {'remove': 'delete_if_exists'}}},
     'imports': {'excutils': 'oslo_utils.excutils', 'contextlib': 'contextlib'}}]}


class Tr:
    """translator for one function body"""
    def __init__(self, fname, params):
        self.fname = fname
        # name -> ('v'|'t'|'b'|'f', slot)
        self.names = dict(params)

    def err(self, node, what):
        raise GenError('%s: line %s: %s: %s' % (self.fname, getattr(node, 'lineno', '?'), what, ast.unparse(node)[:80]))

    # ---- slots
    def slot(self, e):
        if isinstance(e, ast.Attribute) and isinstance(e.value, ast.Name) and e.value.id == 'self':
            m = {'value': ('v', 'VSelf'), 'type_': ('t', 'TSelf'), 'tb': ('b', 'BSelf'), 'reraise': ('f', 'FReraise')}
            if e.attr in m: return m[e.attr]
        if isinstance(e, ast.Name) and e.id in self.names:
            return self.names[e.id]
        return None

    def is_none(self, e):
        return isinstance(e, ast.Constant) and e.value is None

    def is_pred_call(self, e):
        """self._should_ignore_ex(V) -> slot of V"""
        if (isinstance(e, ast.Call) and isinstance(e.func, ast.Attribute) and e.func.attr == '_should_ignore_ex'
                and isinstance(e.func.value, ast.Name) and e.func.value.id == 'self'
                and len(e.args) == 1 and not e.keywords):
            s = self.slot(e.args[0])
            if s and s[0] == 'v': return s[1]
        return None

    # ---- conditions
    def cond(self, e):
        if isinstance(e, ast.BoolOp):
            op = 'CAnd' if isinstance(e.op, ast.And) else 'COr'
            cs = [self.cond(v) for v in e.values]
            r = cs[-1]
            for c in reversed(cs[:-1]): r = '(%s %s %s)' % (op, c, r)
            return r
        if isinstance(e, ast.UnaryOp) and isinstance(e.op, ast.Not):
            sv = self.slot(e.operand)
            if sv and sv[0] == 'v': return '(CFalsy %s)' % sv[1]          # `not value`: truthiness, not `is None`
            return '(CNot %s)' % self.cond(e.operand)
        if isinstance(e, ast.Compare) and len(e.ops) == 1 and isinstance(e.ops[0], (ast.Is, ast.IsNot)):
            neg = isinstance(e.ops[0], ast.IsNot)
            l, r = e.left, e.comparators[0]
            c = None
            if self.is_none(r):
                s = self.slot(l)
                if s and s[0] == 't': c = '(CTypeNone %s)' % s[1]
                elif s and s[0] == 'v': c = '(CValNone %s)' % s[1]
            elif (isinstance(l, ast.Attribute) and l.attr == '__traceback__'):
                sv, sb = self.slot(l.value), self.slot(r)
                if sv and sv[0] == 'v' and sb and sb[0] == 'b':
                    # "is not" is the primitive
                    c = '(CTbDiffers %s %s)' % (sv[1], sb[1]); neg = not neg
            else:
                sl, sr = self.slot(l), self.slot(r)
                if sl and sr and sl[0] == 'v' and sr[0] == 'v': c = '(CSame %s %s)' % (sl[1], sr[1])
            if c is None: self.err(e, 'comparison outside the subset')
            return '(CNot %s)' % c if neg else c
        p = self.is_pred_call(e)
        if p: return '(CPred %s)' % p
        s = self.slot(e)
        if s and s[0] == 'f': return '(CFlag %s)' % s[1]
        if s and s[0] == 'v': return '(CNot (CFalsy %s))' % s[1]         # `if value:` truthiness
        self.err(e, 'condition outside the subset')

    # ---- statements
    def block(self, stmts):
        out = [self.stmt(s) for s in stmts]
        out = [o for o in out if o != 'SSkip'] or ['SSkip']
        r = out[-1]
        for o in reversed(out[:-1]): r = '(SSeq %s %s)' % (o, r)
        return r

    def tuple_elts(self, e):
        return list(e.elts) if isinstance(e, ast.Tuple) else None

    def stmt(self, s):
        if isinstance(s, ast.Expr) and isinstance(s.value, ast.Constant) and isinstance(s.value.value, str):
            return 'SSkip'                                   # docstring
        if isinstance(s, ast.Pass): return 'SSkip'
        if isinstance(s, ast.Delete):
            for t in s.targets:
                for n in (t.elts if isinstance(t, ast.Tuple) else [t]):
                    if not (isinstance(n, ast.Name) and n.id in self.names and self.names[n.id][1].endswith('Loc')):
                        self.err(s, 'del of something that is not a local of sys.exc_info()')
            return 'SSkip'
        if isinstance(s, ast.If):
            # logger plumbing of __init__ is not part of the model
            if (isinstance(s.test, ast.Compare) and isinstance(s.test.left, ast.Name) and s.test.left.id == 'logger'
                    and all(isinstance(b, ast.Assign) and isinstance(b.targets[0], ast.Name) and b.targets[0].id == 'logger' for b in s.body)
                    and not s.orelse):
                return 'SSkip'
            return '(SIf %s %s %s)' % (self.cond(s.test), self.block(s.body), self.block(s.orelse) if s.orelse else 'SSkip')
        if isinstance(s, ast.Try):
            if s.handlers or s.orelse or not s.finalbody: self.err(s, 'try with handlers')
            return '(STryFinally %s %s)' % (self.block(s.body), self.block(s.finalbody))
        if isinstance(s, ast.Raise):
            if s.cause is not None or s.exc is None: self.err(s, 'raise form')
            e = s.exc
            if isinstance(e, ast.Call) and isinstance(e.func, ast.Name) and e.func.id == 'RuntimeError':
                return 'SRaiseRuntime'
            if (isinstance(e, ast.Call) and isinstance(e.func, ast.Attribute) and e.func.attr == 'with_traceback'
                    and len(e.args) == 1 and not e.keywords):
                sv, sb = self.slot(e.func.value), self.slot(e.args[0])
                if sv and sb and sv[0] == 'v' and sb[0] == 'b': return '(SRaiseWithTb %s %s)' % (sv[1], sb[1])
            sv = self.slot(e)
            if sv and sv[0] == 'v': return '(SRaise %s)' % sv[1]
            self.err(s, 'raise of something else')
        if isinstance(s, ast.Return):
            v = s.value
            if isinstance(v, ast.Constant) and v.value is False: return 'SReturnFalse'
            if isinstance(v, ast.Name) and v.id == 'self': return 'SReturnSelf'
            p = self.is_pred_call(v) if v is not None else None
            if p: return '(SReturnPred %s)' % p
            self.err(s, 'return value')
        if isinstance(s, ast.Expr) and isinstance(s.value, ast.Call):
            c = s.value
            f = c.func
            if (isinstance(f, ast.Attribute) and f.attr == 'force_reraise' and isinstance(f.value, ast.Name)
                    and f.value.id == 'self' and not c.args and not c.keywords):
                return 'SForce'
            if (isinstance(f, ast.Attribute) and f.attr == 'error' and isinstance(f.value, ast.Attribute)
                    and f.value.attr == 'logger' and len(c.args) == 2 and isinstance(c.args[0], ast.Constant)):
                fe = c.args[1]
                if (isinstance(fe, ast.Call) and isinstance(fe.func, ast.Attribute) and fe.func.attr == 'format_exception'
                        and [self.slot(a) for a in fe.args] == [('t', 'TSelf'), ('v', 'VSelf'), ('b', 'BSelf')] and not fe.keywords):
                    return 'SLog'
            self.err(s, 'call outside the subset')
        if isinstance(s, ast.Assign) and len(s.targets) == 1:
            t, v = s.targets[0], s.value
            te, ve = self.tuple_elts(t), self.tuple_elts(v)
            # (a, b, c) = sys.exc_info()
            if (te and len(te) == 3 and all(isinstance(n, ast.Name) for n in te) and isinstance(v, ast.Call)
                    and isinstance(v.func, ast.Attribute) and v.func.attr == 'exc_info'
                    and isinstance(v.func.value, ast.Name) and v.func.value.id == 'sys' and not v.args):
                for n, sl in zip(te, [('t', 'TLoc'), ('v', 'VLoc'), ('b', 'BLoc')]):
                    if n.id in self.names and self.names[n.id] != sl: self.err(s, 'local shadows a parameter')
                    self.names[n.id] = sl
                return 'SReadInfo'
            if te and ve and len(te) == 3 and len(ve) == 3:
                ts = [self.slot(x) for x in te]
                if ts == [('t', 'TSelf'), ('v', 'VSelf'), ('b', 'BSelf')]:
                    if all(self.is_none(x) for x in ve): return 'SInitSelf'
                    if [self.slot(x) for x in ve] == [('t', 'TLoc'), ('v', 'VLoc'), ('b', 'BLoc')]: return 'SStore'
                self.err(s, 'tuple assignment outside the subset')
            st = self.slot(t)
            if st and st[0] == 'f' and st[1] == 'FReraise' and isinstance(v, ast.Name) and v.id == 'reraise':
                return 'SInitFlag'
            if isinstance(t, ast.Attribute) and t.attr == 'logger' and isinstance(v, ast.Name) and v.id == 'logger':
                return 'SSkip'
            if st and self.is_none(v):
                if st[0] == 'v': return '(SClearV %s)' % st[1]
                if st[0] == 'b': return '(SClearB %s)' % st[1]
            if st and st[0] == 'v' and isinstance(v, ast.Call) and not v.args and not v.keywords:
                sf = self.slot(v.func)
                if sf and sf[0] == 't': return '(SNewFromType %s %s)' % (st[1], sf[1])
            self.err(s, 'assignment outside the subset')
        self.err(s, 'statement outside the subset')


def argnames(fn):
    a = fn.args
    if a.vararg or a.kwarg or a.kwonlyargs or a.posonlyargs: raise GenError('%s: signature' % fn.name)
    return [x.arg for x in a.args], a.defaults


def default_bool(fn, name):
    names, defaults = argnames(fn)
    i = names.index(name) - (len(names) - len(defaults))
    if i < 0 or not (isinstance(defaults[i], ast.Constant) and isinstance(defaults[i].value, bool)):
        raise GenError('%s: default of %s is not a boolean literal' % (fn.name, name))
    return defaults[i].value


def coq_bool(b): return 'true' if b else 'false'


def generate():
    failclosed.check_all(FAILCLOSED['generate'])
    repo_import('oslo_utils.excutils')
    tree = repo_ast('oslo_utils/excutils.py')
    S = 'save_and_reraise_exception'
    out = [HEADER % ('oslo_utils/excutils.py, oslo_utils/fileutils.py', 'tools/gen/gen_C09.py')]
    out.append('Require Import List.\nImport ListNotations.\nRequire Import OV.Base.C09_HL.')

    # --- save_and_reraise_exception
    f = find_def(tree, '__init__', S)
    names, _ = argnames(f)
    if names != ['self', 'reraise', 'logger']: raise GenError('__init__ signature changed: %r' % names)
    out.append('Definition gen_init_default_reraise : bool := %s.' % coq_bool(default_bool(f, 'reraise')))
    out.append('Definition gen_init : hstmt := %s.' % Tr('sare.__init__', {}).block(f.body))

    f = find_def(tree, 'force_reraise', S)
    if argnames(f)[0] != ['self']: raise GenError('force_reraise signature')
    out.append('Definition gen_force : hstmt := %s.' % Tr('force_reraise', {}).block(f.body))

    f = find_def(tree, 'capture', S)
    names, _ = argnames(f)
    if names != ['self', 'check']: raise GenError('capture signature')
    out.append('Definition gen_capture_default_check : bool := %s.' % coq_bool(default_bool(f, 'check')))
    out.append('Definition gen_capture : hstmt := %s.' % Tr('capture', {'check': ('f', 'FCheck')}).block(f.body))

    f = find_def(tree, '__enter__', S)
    body = [s for s in f.body if not (isinstance(s, ast.Expr) and isinstance(s.value, ast.Constant))]
    ok = (len(body) == 1 and isinstance(body[0], ast.Return) and isinstance(body[0].value, ast.Call)
          and isinstance(body[0].value.func, ast.Attribute) and body[0].value.func.attr == 'capture'
          and isinstance(body[0].value.func.value, ast.Name) and body[0].value.func.value.id == 'self'
          and not body[0].value.args)
    if not ok: raise GenError('__enter__ is not "return self.capture(...)"')
    kws = body[0].value.keywords
    if len(kws) == 0: chk = 'gen_capture_default_check'
    elif len(kws) == 1 and kws[0].arg == 'check' and isinstance(kws[0].value, ast.Constant) and isinstance(kws[0].value.value, bool):
        chk = coq_bool(kws[0].value.value)
    else: raise GenError('__enter__: capture arguments')
    out.append('Definition gen_enter_check : bool := %s.' % chk)

    f = find_def(tree, '__exit__', S)
    names, _ = argnames(f)
    if len(names) != 4: raise GenError('__exit__ signature')
    out.append('Definition gen_exit : hstmt := %s.' % Tr('sare.__exit__', {names[1]: ('t', 'TArg'), names[2]: ('v', 'VArg'), names[3]: ('b', 'BArg')}).block(f.body))

    # --- exception_filter
    F = 'exception_filter'
    f = find_def(tree, '__init__', F)
    names, _ = argnames(f)
    if len(names) != 2: raise GenError('exception_filter.__init__ signature')
    body = [x for x in f.body if not (isinstance(x, ast.Expr) and isinstance(x.value, ast.Constant))]
    want_assign = 'self._should_ignore_ex = %s' % names[1]
    want_wrap = ('if all((hasattr(%s, a) for a in functools.WRAPPER_ASSIGNMENTS)):\n    functools.update_wrapper(self, %s)' % (names[1], names[1]))
    got = [ast.unparse(x) for x in body]
    if got == [want_assign, want_wrap]: order = 'AssignThenWrap'
    elif got == [want_wrap, want_assign]: order = 'WrapThenAssign'
    else: raise GenError('exception_filter.__init__: not {store predicate, update_wrapper if it has the wrapper attributes}')
    out.append('Definition gen_filt_init_order : init_order := %s.' % order)
    f = find_def(tree, '__get__', F)
    names, _ = argnames(f)
    if len(names) != 3: raise GenError('__get__ signature')
    want = 'return type(self)(self._should_ignore_ex.__get__(%s, %s))' % (names[1], names[2])
    body = [s for s in f.body if not (isinstance(s, ast.Expr) and isinstance(s.value, ast.Constant))]
    if len(body) != 1 or ast.unparse(body[0]) != want: raise GenError('__get__ is not the re-wrapping of the bound predicate')
    out.append('Definition gen_get_rebinds : bool := true.')
    f = find_def(tree, '__enter__', F)
    body = [s for s in f.body if not (isinstance(s, ast.Expr) and isinstance(s.value, ast.Constant))]
    if len(body) != 1 or ast.unparse(body[0]) != 'return self': raise GenError('exception_filter.__enter__')
    f = find_def(tree, '__exit__', F)
    names, _ = argnames(f)
    if len(names) != 4: raise GenError('exception_filter.__exit__ signature')
    out.append('Definition gen_filt_exit : hstmt := %s.' % Tr('filter.__exit__', {names[1]: ('t', 'TArg'), names[2]: ('v', 'VArg'), names[3]: ('b', 'BArg')}).block(f.body))
    f = find_def(tree, '__call__', F)
    names, _ = argnames(f)
    if len(names) != 2: raise GenError('exception_filter.__call__ signature')
    out.append('Definition gen_filt_call : hstmt := %s.' % Tr('filter.__call__', {names[1]: ('v', 'VArg')}).block(f.body))

    # --- raise_with_cause
    f = find_def(tree, 'raise_with_cause')
    a = f.args
    if [x.arg for x in a.args] != ['exc_cls', 'message'] or not a.vararg or not a.kwarg: raise GenError('raise_with_cause signature')
    kw = a.kwarg.arg
    body = [s for s in f.body if not (isinstance(s, ast.Expr) and isinstance(s.value, ast.Constant))]
    ok = len(body) == 2 and isinstance(body[0], ast.If) and ast.unparse(body[0].test) == "'cause' not in %s" % kw and not body[0].orelse
    if ok:
        ib = body[0].body
        ok = (len(ib) == 2 and isinstance(ib[0], ast.Assign) and ast.unparse(ib[0].value) == 'sys.exc_info()'
              and isinstance(ib[0].targets[0], ast.Tuple) and len(ib[0].targets[0].elts) == 3 and isinstance(ib[1], ast.Try)
              and not ib[1].handlers)
    if ok:
        ev = ib[0].targets[0].elts[1].id
        tb = ib[1].body
        ok = (len(tb) == 1 and isinstance(tb[0], ast.If) and ast.unparse(tb[0].test) == '%s is not None' % ev and not tb[0].orelse
              and len(tb[0].body) == 1 and ast.unparse(tb[0].body[0]) == "%s['cause'] = %s" % (kw, ev)
              and all(isinstance(s, ast.Delete) for s in ib[1].finalbody))
    if ok:
        r = body[1]
        ok = (isinstance(r, ast.Raise) and ast.unparse(r.exc) == 'exc_cls(message, *%s, **%s)' % (a.vararg.arg, kw)
              and r.cause is not None and ast.unparse(r.cause) == "%s.get('cause')" % kw)
    if not ok: raise GenError('raise_with_cause: shape changed')
    out.append('Definition gen_rwc_cause_from_active : bool := true.')
    out.append('Definition gen_rwc_raise_from_cause : bool := true.')

    # --- fileutils.remove_path_on_error
    repo_import('oslo_utils.fileutils')
    ft = repo_ast('oslo_utils/fileutils.py')
    f = find_def(ft, 'remove_path_on_error')
    if [ast.unparse(d) for d in f.decorator_list] != ['contextlib.contextmanager']: raise GenError('remove_path_on_error decorators')
    names, _ = argnames(f)
    if names != ['path', 'remove']: raise GenError('remove_path_on_error signature')
    body = [s for s in f.body if not (isinstance(s, ast.Expr) and isinstance(s.value, ast.Constant))]
    ok = (len(body) == 1 and isinstance(body[0], ast.Try) and len(body[0].body) == 1 and ast.unparse(body[0].body[0]) == 'yield'
          and len(body[0].handlers) == 1 and not body[0].orelse and not body[0].finalbody)
    if not ok: raise GenError('remove_path_on_error: not try/yield/except')
    h = body[0].handlers[0]
    ht = ast.unparse(h.type) if h.type is not None else 'BaseException'
    if ht not in ('Exception', 'BaseException') or h.name is not None: raise GenError('remove_path_on_error: except clause')
    ok = (len(h.body) == 1 and isinstance(h.body[0], ast.With) and len(h.body[0].items) == 1
          and h.body[0].items[0].optional_vars is None and isinstance(h.body[0].items[0].context_expr, ast.Call)
          and ast.unparse(h.body[0].items[0].context_expr.func) == 'excutils.save_and_reraise_exception'
          and not h.body[0].items[0].context_expr.args
          and len(h.body[0].body) == 1 and ast.unparse(h.body[0].body[0]) == 'remove(path)')
    if not ok: raise GenError('remove_path_on_error: handler is not "with save_and_reraise_exception(): remove(path)"')
    kws = h.body[0].items[0].context_expr.keywords
    if not kws: rr = 'gen_init_default_reraise'
    elif len(kws) == 1 and kws[0].arg == 'reraise' and isinstance(kws[0].value, ast.Constant) and isinstance(kws[0].value.value, bool):
        rr = coq_bool(kws[0].value.value)
    else: raise GenError('remove_path_on_error: save_and_reraise_exception arguments')
    out.append('Definition gen_rpoe_catch : catchkind := %s.' % ('CatchException' if ht == 'Exception' else 'CatchBaseException'))
    out.append('Definition gen_rpoe_reraise : bool := %s.' % rr)
    return '\n'.join(out) + '\n'


if __name__ == '__main__':
    print(generate())
