"""Shared helpers for the translators: load /repo modules fresh, AST lookup."""
import ast, importlib, os, sys

REPO = os.environ.get('VERIF_REPO', '/repo')

class GenError(Exception):
    """the translator cannot regenerate an item (fail-closed)"""

def repo_import(modname):
    if REPO not in sys.path:
        sys.path.insert(0, REPO)
    m = importlib.import_module(modname)
    f = getattr(m, '__file__', '') or ''
    if not os.path.abspath(f).startswith(os.path.abspath(REPO) + os.sep):
        raise GenError('%s imported from %s, not from %s' % (modname, f, REPO))
    return m

def repo_ast(relpath):
    p = os.path.join(REPO, relpath)
    return ast.parse(open(p).read(), p)

def find_def(tree, name, cls=None):
    """FunctionDef `name` at module level or inside class `cls`"""
    body = tree.body
    if cls is not None:
        for n in body:
            if isinstance(n, ast.ClassDef) and n.name == cls:
                body = n.body; break
        else:
            raise GenError('class %s not found' % cls)
    for n in body:
        if isinstance(n, ast.FunctionDef) and n.name == name:
            return n
    raise GenError('function %s not found' % name)

def int_consts(node):
    return [n.value for n in ast.walk(node)
            if isinstance(n, ast.Constant) and isinstance(n.value, int) and not isinstance(n.value, bool)]

def lit(s):
    if isinstance(s, (bytes, bytearray)): s = list(s)
    elif isinstance(s, str): s = [ord(c) for c in s]
    return '[' + ';'.join(str(int(c)) for c in s) + ']'

HEADER = '(* GENERATED from %s by %s on every run. Do not edit. *)\n'
