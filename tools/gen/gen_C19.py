"""Gen/C19_SplitPath.v and Gen/C19_Grammar.v from oslo_utils/strutils.py

* split_path is translated statement by statement (py2gal.Translator extended here, not edited there)
  with the list/str constructs the function uses: truthiness of an optional int (`if not maxsegs`),
  rebinding of a local to another type, str.split(<1 char>, int), len / slices / indexing of a list of
  str (indexing may raise IndexError: tests containing it are translated into the `res` monad with
  Python's short-circuit rule), `'' in <list>`, list.extend([None] * n).
* split_by_commas: the arguments of the pyparsing grammar (quoteChar, escChar, the Word alphabet
  pp.printables minus excludeChars, the delimiter of delimitedList, the shape of the grammar expression
  and the exception mapping) are read from the AST / the installed pyparsing.
Fail closed: anything unexpected raises GenError (the runner then uses coq/GenBaseline)."""
import ast
from common import *
import py2gal
from py2gal import Unsupported
import failclosed

# the two functions: one undecorated definition each, bound to its name at run time (the defaults of split_path are emitted)
_A = failclosed.ANY
FAILCLOSED = {'generate_split_path': [{'src': 'oslo_utils/strutils.py', 'mod': 'oslo_utils.strutils',
                                       'functions': {'split_path': {'defaults': {'minsegs': _A, 'maxsegs': _A, 'rest_with_last': _A}}}}],
              'generate_grammar': [{'src': 'oslo_utils/strutils.py', 'mod': 'oslo_utils.strutils',
                                    'functions': {'split_by_commas': {'defaults': {}}}}]}

COQ_TY = dict(py2gal.COQ_TY, optstrlist='list (option bytes)')


class T19(py2gal.Translator):
    # ---------------------------------------------------------------- expressions (pure)
    def expr(self, e):
        t = self.src(e)
        if t in self.consts:
            return self.consts[t]
        if isinstance(e, ast.Call) and self.src(e.func) == 'len' and len(e.args) == 1 and not e.keywords:
            a, ta = self.expr(e.args[0])
            if ta == 'strlist': return '(llen %s)' % a, 'int'
            if ta == 'bytes': return '(zlen %s)' % a, 'int'
            raise Unsupported('len of ' + ta)
        if isinstance(e, ast.Call) and isinstance(e.func, ast.Attribute) and e.func.attr == 'split':
            recv, tr = self.expr(e.func.value)
            if tr != 'bytes' or e.keywords or len(e.args) != 2: raise Unsupported('split form: ' + t)
            sep = e.args[0]
            if not (isinstance(sep, ast.Constant) and isinstance(sep.value, str) and len(sep.value) == 1):
                raise Unsupported('split separator is not a one-character literal')
            k, tk = self.expr(e.args[1])
            if tk != 'int': raise Unsupported('maxsplit of type ' + tk)
            return '(py_split1 %s %d%%N %s)' % (recv, ord(sep.value), k), 'strlist'
        if isinstance(e, ast.Subscript) and isinstance(e.slice, ast.Slice):
            a, ta = self.expr(e.value)
            if ta == 'strlist':
                if e.slice.step is not None: raise Unsupported('slice step')
                def bound(x):
                    if x is None: return 'None'
                    v, tv = self.expr(x)
                    if tv != 'int': raise Unsupported('slice bound type ' + tv)
                    return '(Some %s)' % v
                return '(lslice %s %s %s)' % (bound(e.slice.lower), bound(e.slice.upper), a), 'strlist'
        if isinstance(e, ast.Compare) and len(e.ops) == 1 and isinstance(e.ops[0], (ast.In, ast.NotIn)):
            a, ta = self.expr(e.left); b, tb = self.expr(e.comparators[0])
            if ta == 'bytes' and tb == 'strlist':
                r = '(str_in %s %s)' % (a, b)
                return (r if isinstance(e.ops[0], ast.In) else '(negb %s)' % r), 'bool'
            raise Unsupported('in on %s, %s' % (ta, tb))
        return super().expr(e)

    # ---------------------------------------------------------------- truth value of a test, possibly raising
    def rexpr(self, e):
        """(coq text, 'bool' | 'resbool'): the truth value Python's `if` sees"""
        if isinstance(e, ast.BoolOp):
            parts = [self.rexpr(v) for v in e.values]
            if all(k == 'bool' for _, k in parts):
                return '(' + (' && ' if isinstance(e.op, ast.And) else ' || ').join(t for t, _ in parts) + ')', 'bool'
            comb = 'res_and' if isinstance(e.op, ast.And) else 'res_or'
            lifted = [t if k == 'resbool' else '(Ok %s)' % t for t, k in parts]
            acc = lifted[-1]
            for t in reversed(lifted[:-1]):
                acc = '(%s %s %s)' % (comb, t, acc)
            return acc, 'resbool'
        if isinstance(e, ast.UnaryOp) and isinstance(e.op, ast.Not):
            t, k = self.rexpr(e.operand)
            return ('(negb %s)' % t, 'bool') if k == 'bool' else ('(res_map negb %s)' % t, 'resbool')
        if isinstance(e, ast.Subscript) and not isinstance(e.slice, ast.Slice):
            a, ta = self.expr(e.value)
            i, ti = self.expr(e.slice)
            if ta == 'strlist' and ti == 'int':
                return '(res_map str_truth (lidx %s %s))' % (a, i), 'resbool'
            raise Unsupported('indexing %s by %s' % (ta, ti))
        t, ty = self.expr(e)
        if ty == 'bool': return t, 'bool'
        if ty == 'bytes': return '(str_truth %s)' % t, 'bool'
        if ty == 'int': return '(negb (%s =? 0))' % t, 'bool'
        raise Unsupported('truth value of ' + ty)

    # ---------------------------------------------------------------- statements
    def bind_target(self, tgt, ty):
        if isinstance(tgt, ast.Name):
            # Python rebinding: the new binding shadows the old one, whatever its type was
            self.types[tgt.id] = ty
            self.consts.pop(tgt.id, None)
            return tgt.id
        return super().bind_target(tgt, ty)

    def branch(self, stmts):
        saved, savedc = dict(self.types), dict(self.consts)
        out = self.block(stmts)
        self.types, self.consts = saved, savedc
        return out

    def block(self, stmts):
        if not stmts:
            return super().block(stmts)
        s, rest = stmts[0], stmts[1:]
        if isinstance(s, ast.If):
            test = s.test
            neg = False
            if isinstance(test, ast.UnaryOp) and isinstance(test.op, ast.Not):
                inner, neg = test.operand, True
            else:
                inner = test
            if isinstance(inner, ast.Name) and self.src(inner) not in self.consts and self.types.get(inner.id) == 'optint':
                # truthiness of an optional int: None and 0 are false; in the true branch the name is an int
                x = inner.id
                true_body, false_body = (s.orelse, s.body) if neg else (s.body, s.orelse)
                f1 = self.branch(false_body + rest)
                var = 'some_' + x
                saved, savedc = dict(self.types), dict(self.consts)
                self.consts[x] = (var, 'int')
                f2 = self.block(false_body + rest)
                self.types, self.consts = dict(saved), dict(savedc)
                self.consts[x] = (var, 'int')
                t = self.block(true_body + rest)
                self.types, self.consts = saved, savedc
                return ('match %s with\n| None => (\n%s)\n| Some %s => if (%s =? 0) then (\n%s) else (\n%s)\nend'
                        % (x, f1, var, var, f2, t))
            if not (isinstance(test, ast.Compare) and len(test.ops) == 1 and isinstance(test.ops[0], (ast.Is, ast.IsNot))):
                c, k = self.rexpr(test)
                a = self.branch(s.body + rest)
                b = self.branch(s.orelse + rest)
                if k == 'bool':
                    return 'if %s then (\n%s) else (\n%s)' % (c, a, b)
                self.raises = True
                return 'match %s with\n| Exn e__ => RAISE(e__)\n| Ok c__ => if c__ then (\n%s) else (\n%s)\nend' % (c, a, b)
        if isinstance(s, ast.Expr) and isinstance(s.value, ast.Call) and isinstance(s.value.func, ast.Attribute) \
                and s.value.func.attr == 'extend' and isinstance(s.value.func.value, ast.Name) \
                and self.types.get(s.value.func.value.id) == 'strlist' and len(s.value.args) == 1 and not s.value.keywords:
            arg = s.value.args[0]
            if isinstance(arg, ast.BinOp) and isinstance(arg.op, ast.Mult) and isinstance(arg.left, ast.List) \
                    and len(arg.left.elts) == 1 and isinstance(arg.left.elts[0], ast.Constant) and arg.left.elts[0].value is None:
                n, tn = self.expr(arg.right)
                if tn != 'int': raise Unsupported('[None] * ' + tn)
                lst = s.value.func.value.id
                self.types[lst] = 'optstrlist'
                return 'let %s := (pad_none %s %s) in\n%s' % (lst, lst, n, self.block(rest))
            raise Unsupported('extend argument: ' + self.src(arg))
        if isinstance(s, ast.Return) and s.value is not None and isinstance(s.value, ast.Name) \
                and self.types.get(s.value.id) == 'optstrlist':
            return self.ret(s.value.id, 'optstrlist')
        return super().block(stmts)


def _const_default(d):
    if not isinstance(d, ast.Constant): raise GenError('split_path: non-literal default')
    return d.value


def generate_split_path():
    failclosed.check_all(FAILCLOSED['generate_split_path'])
    tree = repo_ast('oslo_utils/strutils.py')
    f = find_def(tree, 'split_path')
    params = [('path', 'bytes'), ('minsegs', 'int'), ('maxsegs', 'optint'), ('rest_with_last', 'bool')]
    a = f.args
    if [x.arg for x in a.args] != [p for p, _ in params] or a.vararg or a.kwarg or a.kwonlyargs or a.posonlyargs:
        raise GenError('split_path: signature changed')
    if len(a.defaults) != 3: raise GenError('split_path: defaults changed')
    dmin, dmax, drest = [_const_default(d) for d in a.defaults]
    if not (isinstance(dmin, int) and not isinstance(dmin, bool)): raise GenError('split_path: minsegs default')
    if not (dmax is None or (isinstance(dmax, int) and not isinstance(dmax, bool))): raise GenError('split_path: maxsegs default')
    if not isinstance(drest, bool): raise GenError('split_path: rest_with_last default')
    tr = T19(params)
    tr.name = 'gen_split_path'
    try:
        body = tr.block(f.body)
    except Unsupported as e:
        raise GenError('split_path: ' + str(e))
    if tr.ret_type != 'optstrlist': raise GenError('split_path: return type %s' % tr.ret_type)
    if not tr.raises: raise GenError('split_path: no raise found')
    if 'FUEL' in body or tr.aux: raise GenError('split_path: unexpected loop')
    body = body.replace('RET(', 'Ok (').replace('RAISE(', 'Exn (')
    out = [HEADER % ('oslo_utils/strutils.py (split_path)', 'tools/gen/gen_C19.py (py2gal, extended)')]
    out.append('Require Import OV.Base.Bytes OV.Base.Py OV.Base.Str OV.Base.C19_PyList.')
    out.append('Open Scope Z_scope.')
    out.append('Definition gen_split_path%s : res (%s) :=\n%s.' % (
        ''.join(' (%s : %s)' % (p, COQ_TY[t]) for p, t in params), COQ_TY['optstrlist'], body))
    out.append('Definition gen_default_minsegs : Z := (%d).' % dmin)
    out.append('Definition gen_default_maxsegs : option Z := %s.' % ('None' if dmax is None else '(Some (%d))' % dmax))
    out.append('Definition gen_default_rest_with_last : bool := %s.' % ('true' if drest else 'false'))
    return '\n'.join(out) + '\n'


# ---------------------------------------------------------------------------- split_by_commas

def _kw(call, name):
    for k in call.keywords:
        if k.arg == name: return k.value
    return None


def _str_const(n, what, length=None):
    if not (isinstance(n, ast.Constant) and isinstance(n.value, str)): raise GenError('split_by_commas: %s is not a string literal' % what)
    if length is not None and len(n.value) != length: raise GenError('split_by_commas: %s has length %d' % (what, len(n.value)))
    return n.value


def generate_grammar():
    import inspect
    failclosed.check_all(FAILCLOSED['generate_grammar'])
    tree = repo_ast('oslo_utils/strutils.py')
    f = find_def(tree, 'split_by_commas')
    if [x.arg for x in f.args.args] != ['value']: raise GenError('split_by_commas: signature changed')
    # local alias of the pyparsing module
    alias = None
    for n in ast.walk(f):
        if isinstance(n, ast.Import):
            for a in n.names:
                if a.name == 'pyparsing': alias = a.asname or 'pyparsing'
    if alias is None:
        for n in tree.body:
            if isinstance(n, ast.Import):
                for a in n.names:
                    if a.name == 'pyparsing': alias = a.asname or 'pyparsing'
    if alias is None: raise GenError('split_by_commas: pyparsing import not found')
    def is_pp(node, *names):
        return isinstance(node, ast.Attribute) and isinstance(node.value, ast.Name) and node.value.id == alias and node.attr in names
    assigns = {}
    for n in f.body:
        if isinstance(n, ast.Assign) and len(n.targets) == 1 and isinstance(n.targets[0], ast.Name):
            if n.targets[0].id in assigns: raise GenError('split_by_commas: %s assigned twice' % n.targets[0].id)
            assigns[n.targets[0].id] = n.value
    # word = QuotedString(...) | Word(printables, excludeChars=...)
    w = assigns.get('word')
    if not (isinstance(w, ast.BinOp) and isinstance(w.op, ast.BitOr)): raise GenError('split_by_commas: word is not a two-way alternative')
    q, wd = w.left, w.right
    if not (isinstance(q, ast.Call) and is_pp(q.func, 'QuotedString') and not q.args
            and sorted(k.arg for k in q.keywords) in (['escChar', 'quoteChar'], ['esc_char', 'quote_char'])):
        raise GenError('split_by_commas: first alternative is not QuotedString(quoteChar=, escChar=)')
    quote = _str_const(_kw(q, 'quoteChar') or _kw(q, 'quote_char'), 'quoteChar', 1)
    esc = _str_const(_kw(q, 'escChar') or _kw(q, 'esc_char'), 'escChar', 1)
    if quote.strip() != quote or not quote: raise GenError('split_by_commas: whitespace quote character')
    if not (isinstance(wd, ast.Call) and is_pp(wd.func, 'Word') and len(wd.args) == 1 and is_pp(wd.args[0], 'printables')
            and [k.arg for k in wd.keywords] in (['excludeChars'], ['exclude_chars'])):
        raise GenError('split_by_commas: second alternative is not Word(printables, excludeChars=)')
    excl = _str_const(wd.keywords[0].value, 'excludeChars')
    # grammar = stringStart + delimitedList(word) + stringEnd
    g = assigns.get('grammar')
    ok = (isinstance(g, ast.BinOp) and isinstance(g.op, ast.Add) and isinstance(g.left, ast.BinOp) and isinstance(g.left.op, ast.Add)
          and is_pp(g.left.left, 'stringStart', 'string_start') and is_pp(g.right, 'stringEnd', 'string_end')
          and isinstance(g.left.right, ast.Call) and is_pp(g.left.right.func, 'delimitedList', 'DelimitedList', 'delimited_list')
          and len(g.left.right.args) == 1 and not g.left.right.keywords
          and isinstance(g.left.right.args[0], ast.Name) and g.left.right.args[0].id == 'word')
    if not ok: raise GenError('split_by_commas: grammar is not stringStart + delimitedList(word) + stringEnd')
    # try: return list(grammar.parseString(value)) except pp.ParseException: raise ValueError(...)
    tries = [n for n in f.body if isinstance(n, ast.Try)]
    if len(tries) != 1: raise GenError('split_by_commas: try statement')
    t = tries[0]
    ok = (len(t.body) == 1 and isinstance(t.body[0], ast.Return) and not t.orelse and not t.finalbody and len(t.handlers) == 1
          and ast.unparse(t.body[0].value) in ('list(grammar.parseString(value))', 'list(grammar.parse_string(value))')
          and is_pp(t.handlers[0].type, 'ParseException') and len(t.handlers[0].body) == 1
          and isinstance(t.handlers[0].body[0], ast.Raise) and isinstance(t.handlers[0].body[0].exc, ast.Call)
          and ast.unparse(t.handlers[0].body[0].exc.func) == 'ValueError')
    if not ok: raise GenError('split_by_commas: parse / exception mapping changed')
    extra = [n for n in f.body if not isinstance(n, (ast.Import, ast.Assign, ast.Try))
             and not (isinstance(n, ast.Expr) and isinstance(n.value, ast.Constant))]
    if extra: raise GenError('split_by_commas: unexpected statement')
    import pyparsing as pp
    printables = pp.printables
    delim = inspect.signature(pp.DelimitedList.__init__).parameters['delim'].default
    if not (isinstance(delim, str) and len(delim) == 1): raise GenError('DelimitedList default delimiter')
    white = pp.ParserElement.DEFAULT_WHITE_CHARS
    word_chars = sorted(set(ord(c) for c in printables) - set(ord(c) for c in excl))
    out = [HEADER % ('oslo_utils/strutils.py (split_by_commas) and the installed pyparsing', 'tools/gen/gen_C19.py')]
    out.append('Require Import OV.Base.Bytes.')
    out.append('Open Scope N_scope.')
    out.append('Definition quote_char : N := %d.' % ord(quote))
    out.append('Definition esc_char : N := %d.' % ord(esc))
    out.append('Definition delim_char : N := %d.' % ord(delim))
    out.append('Definition word_chars : list N := %s.' % lit(word_chars))
    out.append('Definition white_chars : list N := %s.' % lit(sorted(ord(c) for c in white)))
    return '\n'.join(out) + '\n'


if __name__ == '__main__':
    import sys
    sys.stdout.write(generate_split_path()); sys.stdout.write(generate_grammar())
