"""Gen/C04_Sanitize.v and Gen/C04_Concrete.v from oslo_utils/strutils.py.

C04_Sanitize.v : the key list, the IGNORECASE class of every key character, every
                 _FORMAT_PATTERNS_* entry as a TEMPLATE (a Coq function key -> re with the
                 %(key)s hole symbolic), the three replacement templates and the order of
                 the substitution loops of mask_password (read from its AST).
C04_Concrete.v : the regex objects the module actually compiled
                 (_SANITIZE_PATTERNS_2/_1/_WILDCARD[key], with their own flags), per key in
                 _SANITIZE_KEYS order - this is what the model runs.  Proofs/C04.v proves
                 concrete = templates instantiated at the keys, so the compile loop is tied.

Fail-closed: anything unexpected raises GenError (the runner then uses the baseline copy)."""
import ast, re, sys
import re._parser as P
from re._constants import (LITERAL, NOT_LITERAL, IN, ANY, MAX_REPEAT, MIN_REPEAT, SUBPATTERN,
                           BRANCH, AT, AT_BEGINNING, AT_END, MAXREPEAT)
from common import *
import regex_tr
import failclosed

# what is read besides the evaluated module values (tools/gen/failclosed.py): mask_password must be the one plain definition,
# `re` the real module (re.sub in mask_password, re.compile at the compile site)
_FC = {'src': 'oslo_utils/strutils.py', 'mod': 'oslo_utils.strutils', 'imports': {'re': 're'}}
FAILCLOSED = {'generate': [dict(_FC, functions={'mask_password': {'defaults': {'secret': failclosed.ANY}}})],
              'generate_concrete': [_FC]}

SENT = '\ue000'          # stands for %(key)s while parsing a template
CHAR_OPS = (LITERAL, NOT_LITERAL, IN, ANY)
KEY_ALPHABET = 'abcdefghijklmnopqrstuvwxyz_'


class _Tr:
    """regex_tr.tr / tr_seq with one extension: the sentinel literal becomes (keyseq tbl k REST).
    With key=None it is exactly regex_tr (used to cross-check)."""
    def __init__(self, flags, symbolic):
        self.flags = flags; self.symbolic = symbolic

    def seq(self, items):
        if not items: return 'Eps'
        if self.symbolic and items[-1] == (LITERAL, ord(SENT)):
            raise GenError('%(key)s is the last item of its sequence (template shape not supported)')
        out = self.tr(items[-1])
        for it in reversed(items[:-1]):
            if self.symbolic and it == (LITERAL, ord(SENT)):
                out = '(keyseq gen_ci_table k %s)' % out
            else:
                out = '(Seq %s %s)' % (self.tr(it), out)
        return out

    def tr(self, item):
        op, av = item
        flags = self.flags
        if op in CHAR_OPS:
            if self.symbolic and SENT in repr(item) and item != (LITERAL, ord(SENT)) and op is not ANY:
                # the sentinel inside a set/negation: not a plain splice
                if any(x == (LITERAL, ord(SENT)) for x in (av if op is IN else [item])):
                    raise GenError('%(key)s inside a character set')
            return '(Chr %s)' % regex_tr.cs(item, flags)
        if op is MAX_REPEAT:
            mn, mx, body = av
            body = list(body)
            if len(body) == 1 and body[0][0] in CHAR_OPS:
                if self.symbolic and body[0] == (LITERAL, ord(SENT)): raise GenError('repeat of %(key)s')
                return '(Rep %s %d%%nat %s)' % (regex_tr.cs(body[0], flags), mn, 'None' if mx == MAXREPEAT else '(Some %d%%nat)' % mx)
            if (mn, mx) == (0, 1): return '(Opt %s)' % self.seq(body)
            if mn == mx and mn <= 16: return self.seq(body * mn)
            raise GenError('repeat {%s,%s} of a multi-item body' % (mn, mx))
        if op is MIN_REPEAT: raise GenError('lazy repeat')
        if op is SUBPATTERN:
            gid, add_flags, del_flags, body = av
            if add_flags or del_flags: raise GenError('inline flags')
            inner = self.seq(list(body))
            return '(Group %d%%nat %s)' % (gid, inner) if gid is not None else inner
        if op is BRANCH:
            alts = [self.seq(list(b)) for b in av[1]]
            out = alts[-1]
            for a in reversed(alts[:-1]): out = '(Alt %s %s)' % (a, out)
            return out
        if op is AT:
            if flags & re.M: raise GenError('MULTILINE anchors')
            if av is AT_BEGINNING: return 'Bol'
            if av is AT_END: return 'Eol'
        raise GenError('regex op %s' % (op,))


def _parse(pattern, flags):
    try:
        tree = P.parse(pattern, flags)
    except re.error as e:
        raise GenError('pattern does not parse: %s' % e)
    eff = tree.state.flags
    if eff & re.L or eff & re.X: raise GenError('LOCALE/VERBOSE')
    return tree, eff


def template_term(fmt, flags):
    """Coq term (with free variable k) for the format string fmt, e.g. r'(%(key)s[0-9]*=)x'"""
    if SENT in fmt: raise GenError('sentinel occurs in a pattern')
    try:
        pat = fmt % {'key': SENT}
    except Exception as e:
        raise GenError('pattern is not a %%(key)s format: %s' % e)
    if SENT not in pat: raise GenError('pattern has no %(key)s hole')
    tree, eff = _parse(pat, flags)
    return _Tr(eff, True).seq(list(tree))


def render(term, key, ci):
    """instantiate a template term at a concrete key, textually (mirror of Coq's keyseq)"""
    out = term
    marker = '(keyseq gen_ci_table k '
    while True:
        i = out.find(marker)
        if i < 0: return out
        # find the matching close paren of this keyseq application
        depth = 0; j = i
        while True:
            if out[j] == '(': depth += 1
            elif out[j] == ')':
                depth -= 1
                if depth == 0: break
            j += 1
        rest = out[i + len(marker):j]
        rep = rest
        for ch in reversed(key):
            rep = '(Seq (Chr %s) %s)' % (ci[ch], rep)
        out = out[:i] + rep + out[j + 1:]


def _strutils():
    m = repo_import('oslo_utils.strutils')
    for n in ('_SANITIZE_KEYS', '_FORMAT_PATTERNS_1', '_FORMAT_PATTERNS_2', '_FORMAT_PATTERNS_WILDCARD',
              '_SANITIZE_PATTERNS_1', '_SANITIZE_PATTERNS_2', '_SANITIZE_PATTERNS_WILDCARD'):
        if not hasattr(m, n): raise GenError('strutils.%s not found' % n)
    keys = m._SANITIZE_KEYS
    if not isinstance(keys, (list, tuple)) or not all(isinstance(k, str) for k in keys):
        raise GenError('_SANITIZE_KEYS is not a list of str')
    return m


def _flags_of(m):
    """the flags the module compiled its patterns with (all must agree)"""
    fl = set()
    for d in (m._SANITIZE_PATTERNS_2, m._SANITIZE_PATTERNS_1, m._SANITIZE_PATTERNS_WILDCARD):
        for k, lst in d.items():
            for rx in lst:
                if not hasattr(rx, 'pattern') or not isinstance(rx.pattern, str): raise GenError('non-str compiled pattern')
                fl.add(rx.flags & (re.I | re.S | re.M | re.A | re.X | re.L))
    if len(fl) != 1: raise GenError('patterns compiled under differing flags: %r' % fl)
    return fl.pop()


# ---- mask_password AST: replacement templates and loop order

def _const_or_secret(n):
    """BinOp(+) chain of string constants and the name `secret` -> list of parts"""
    if isinstance(n, ast.BinOp) and isinstance(n.op, ast.Add):
        return _const_or_secret(n.left) + _const_or_secret(n.right)
    if isinstance(n, ast.Constant) and isinstance(n.value, str): return [('lit', n.value)]
    if isinstance(n, ast.Name) and n.id == 'secret': return [('secret', None)]
    raise GenError('replacement template is not a concatenation of literals and `secret`')


def _tmpl_coq(parts):
    out = []
    for kind, v in parts:
        if kind == 'secret': out.append('map TLit secret')
        else:
            items = []; i = 0
            while i < len(v):
                if v[i] == '\\':
                    mm = re.match(r'\\g<(\d+)>|\\(\d)', v[i:])
                    if not mm: raise GenError('replacement template escape %r' % v[i:i + 4])
                    items.append('TGrp %s%%nat' % (mm.group(1) or mm.group(2))); i += mm.end()
                else:
                    items.append('TLit %d' % ord(v[i])); i += 1
            out.append('[' + '; '.join(items) + ']')
    return ' ++ '.join(out) if out else '[]'


def mask_password_shape():
    tree = repo_ast('oslo_utils/strutils.py')
    f = find_def(tree, 'mask_password')
    args = [a.arg for a in f.args.args]
    if args != ['message', 'secret']: raise GenError('mask_password signature changed: %r' % args)
    if not (len(f.args.defaults) == 1 and isinstance(f.args.defaults[0], ast.Constant) and isinstance(f.args.defaults[0].value, str)):
        raise GenError('default secret is not a string literal')
    default_secret = f.args.defaults[0].value
    # `secret` must reach the replacement templates as given: no rebinding (secret = secret or ..., secret = str(secret), ...)
    for n in ast.walk(f):
        if isinstance(n, ast.Name) and n.id == 'secret' and isinstance(n.ctx, (ast.Store, ast.Del)):
            raise GenError('`secret` is rebound inside mask_password')
        if isinstance(n, (ast.BoolOp, ast.IfExp)) and any(isinstance(x, ast.Name) and x.id == 'secret' for x in ast.walk(n)):
            raise GenError('`secret` is used in a conditional expression (secret or ..., ... if secret else ...)')
    subs = {}
    loop = None
    for st in f.body:
        if isinstance(st, ast.Assign) and len(st.targets) == 1 and isinstance(st.targets[0], ast.Name) and st.targets[0].id != 'message':
            subs[st.targets[0].id] = _const_or_secret(st.value)
        if isinstance(st, ast.For):
            if loop is not None: raise GenError('more than one top-level loop in mask_password')
            loop = st
    if loop is None: raise GenError('key loop not found')
    if not (isinstance(loop.target, ast.Name) and isinstance(loop.iter, ast.Name) and loop.iter.id == '_SANITIZE_KEYS'):
        raise GenError('key loop does not iterate _SANITIZE_KEYS')
    kv = loop.target.id
    if len(loop.body) != 1 or not isinstance(loop.body[0], ast.If) or loop.body[0].orelse:
        raise GenError('key loop body is not a single if')
    iff = loop.body[0]
    if ast.dump(iff.test) != ast.dump(ast.parse('%s in message.lower()' % kv, mode='eval').body):
        raise GenError('pre-test is not `key in message.lower()`')
    steps = []
    SEL = {'_SANITIZE_PATTERNS_2': 'SelP2', '_SANITIZE_PATTERNS_1': 'SelP1', '_SANITIZE_PATTERNS_WILDCARD': 'SelPW'}
    for st in iff.body:
        if not isinstance(st, ast.For): raise GenError('unexpected statement in the key branch')
        it = st.iter
        if not (isinstance(it, ast.Subscript) and isinstance(it.value, ast.Name) and it.value.id in SEL
                and isinstance(it.slice, ast.Name) and it.slice.id == kv and isinstance(st.target, ast.Name)):
            raise GenError('substitution loop does not iterate a _SANITIZE_PATTERNS_*[key] list')
        pv = st.target.id
        if len(st.body) != 1: raise GenError('substitution loop body')
        a = st.body[0]
        want = None
        if isinstance(a, ast.Assign) and len(a.targets) == 1 and isinstance(a.targets[0], ast.Name) and a.targets[0].id == 'message' \
           and isinstance(a.value, ast.Call) and ast.dump(a.value.func) == ast.dump(ast.parse('re.sub', mode='eval').body) \
           and len(a.value.args) == 3 and not a.value.keywords \
           and isinstance(a.value.args[0], ast.Name) and a.value.args[0].id == pv \
           and isinstance(a.value.args[1], ast.Name) and a.value.args[1].id in subs \
           and isinstance(a.value.args[2], ast.Name) and a.value.args[2].id == 'message':
            want = a.value.args[1].id
        if want is None: raise GenError('substitution statement is not message = re.sub(pattern, <template>, message)')
        steps.append((SEL[it.value.id], subs[want]))
    ret = f.body[-1]
    if not (isinstance(ret, ast.Return) and isinstance(ret.value, ast.Name) and ret.value.id == 'message'):
        raise GenError('mask_password does not end in `return message`')
    return default_secret, steps


def compile_loop_shape():
    """the module-level loop must compile every pattern as  re.compile(pattern % {'key': key}, re.DOTALL | re.IGNORECASE)
    (exactly two positional arguments, no keywords) and append it to the list of its own kind"""
    tree = repo_ast('oslo_utils/strutils.py')
    loops = [n for n in tree.body if isinstance(n, ast.For) and isinstance(n.iter, ast.Name) and n.iter.id == '_SANITIZE_KEYS']
    if len(loops) != 1: raise GenError('compile loop over _SANITIZE_KEYS not found (or not unique)')
    loop = loops[0]
    if not isinstance(loop.target, ast.Name): raise GenError('compile loop target')
    kv = loop.target.id
    want_call = ast.dump(ast.parse("re.compile(pattern % {'key': KEYVAR}, re.DOTALL | re.IGNORECASE)".replace('KEYVAR', kv), mode='eval').body)
    want_call2 = ast.dump(ast.parse("re.compile(pattern % {'key': KEYVAR}, re.IGNORECASE | re.DOTALL)".replace('KEYVAR', kv), mode='eval').body)
    PAIR = {'_FORMAT_PATTERNS_2': '_SANITIZE_PATTERNS_2', '_FORMAT_PATTERNS_1': '_SANITIZE_PATTERNS_1', '_FORMAT_PATTERNS_WILDCARD': '_SANITIZE_PATTERNS_WILDCARD'}
    seen = set()
    for st in loop.body:
        if isinstance(st, ast.Assign):      # _SANITIZE_PATTERNS_x[key] = []
            t = st.targets[0] if len(st.targets) == 1 else None
            if not (isinstance(t, ast.Subscript) and isinstance(t.value, ast.Name) and t.value.id in PAIR.values()
                    and isinstance(st.value, ast.List) and not st.value.elts):
                raise GenError('unexpected assignment in the compile loop')
            continue
        if not (isinstance(st, ast.For) and isinstance(st.iter, ast.Name) and st.iter.id in PAIR and isinstance(st.target, ast.Name)):
            raise GenError('unexpected statement in the compile loop')
        pv = st.target.id
        if len(st.body) != 2: raise GenError('inner compile loop body')
        a, b = st.body
        if not (isinstance(a, ast.Assign) and len(a.targets) == 1 and isinstance(a.targets[0], ast.Name)
                and ast.dump(a.value).replace("id='%s'" % pv, "id='pattern'") in (want_call, want_call2)):
            raise GenError('patterns are not compiled as re.compile(pattern % {key}, re.DOTALL | re.IGNORECASE)')
        rx = a.targets[0].id
        want_app = ast.dump(ast.parse('%s[%s].append(%s)' % (PAIR[st.iter.id], kv, rx), mode='exec').body[0])
        if ast.dump(b) != want_app: raise GenError('compiled pattern is not appended to %s[key]' % PAIR[st.iter.id])
        seen.add(st.iter.id)
    if seen != set(PAIR): raise GenError('compile loop does not cover the three pattern lists')


def generate():
    failclosed.check_all(FAILCLOSED['generate'])
    compile_loop_shape()
    m = _strutils()
    keys = list(m._SANITIZE_KEYS)
    flags = _flags_of(m)
    uflags = flags | re.U if not (flags & re.A) else flags
    chars = sorted(set(KEY_ALPHABET) | set(''.join(keys)))
    ci = {ch: regex_tr.cs((LITERAL, ord(ch)), P.parse(ch, flags).state.flags) for ch in chars}
    lists = [('gen_tp2', m._FORMAT_PATTERNS_2, m._SANITIZE_PATTERNS_2), ('gen_tp1', m._FORMAT_PATTERNS_1, m._SANITIZE_PATTERNS_1),
             ('gen_tpw', m._FORMAT_PATTERNS_WILDCARD, m._SANITIZE_PATTERNS_WILDCARD)]
    out = [HEADER % ('oslo_utils/strutils.py', 'tools/gen/gen_C04.py')]
    out.append('Require Import OV.Base.Bytes OV.Base.PyInt OV.Base.Regex OV.Base.C04_Tmpl.')
    out.append('Open Scope N_scope.')
    out.append('Definition gen_keys : list str := [%s].' % ';\n  '.join('%s (* %s *)' % (lit(k), k.replace('*', '')) for k in keys))
    out.append('(* IGNORECASE class of each key character under the flags the module compiles with (%d) *)' % int(flags))
    out.append('Definition gen_ci_table : list (N * cset) := [%s].' % ';\n  '.join('(%d, %s)' % (ord(ch), ci[ch]) for ch in chars))
    for name, fmts, compiled in lists:
        if not isinstance(fmts, (list, tuple)) or not all(isinstance(p, str) for p in fmts): raise GenError('%s is not a list of str' % name)
        terms = []
        for i, fmt in enumerate(fmts):
            term = template_term(fmt, flags)
            # every template must be usable with sub: minimum width > 0 already with an empty key? no: with a 1-char key
            if P.parse(fmt % {'key': 'k'}, flags).getwidth()[0] <= 0: raise GenError('a pattern may match the empty string')
            # cross-check: the template rendered at each key is what regex_tr makes of the formatted text
            for k in keys:
                direct, _ = regex_tr.regex_to_coq(fmt % {'key': k}, flags)
                if render(term, k, ci) != direct:
                    raise GenError('template %s_%d does not instantiate to the pattern text at key %s' % (name, i, k))
            out.append('(* %s[%d] of the source *)' % ({'gen_tp2': '_FORMAT_PATTERNS_2', 'gen_tp1': '_FORMAT_PATTERNS_1', 'gen_tpw': '_FORMAT_PATTERNS_WILDCARD'}[name], i))
            out.append('Definition %s_%d (k : str) : re :=\n  %s.' % (name, i, term))
            terms.append('%s_%d k' % (name, i))
        out.append('Definition %s (k : str) : list re := [%s].' % (name, '; '.join(terms)))
    default_secret, steps = mask_password_shape()
    out.append('Definition gen_default_secret : str := %s.' % lit(default_secret))
    snames = []
    for i, (sel, parts) in enumerate(steps):
        out.append('Definition gen_sub_%d (secret : str) : list titem := %s.' % (i, _tmpl_coq(parts)))
        snames.append('(%s, gen_sub_%d)' % (sel, i))
    out.append('(* the substitution loops of mask_password in source order: which pattern list, which replacement *)')
    out.append('Definition gen_steps : list (sel * (str -> list titem)) := [%s].' % '; '.join(snames))
    return '\n'.join(out) + '\n'


def generate_concrete():
    failclosed.check_all(FAILCLOSED['generate_concrete'])
    m = _strutils()
    keys = list(m._SANITIZE_KEYS)
    rows = []
    for k in keys:
        cols = []
        for d in (m._SANITIZE_PATTERNS_2, m._SANITIZE_PATTERNS_1, m._SANITIZE_PATTERNS_WILDCARD):
            if k not in d: raise GenError('no compiled patterns for key %s' % k)
            terms = []
            for rx in d[k]:
                try:
                    t, w = regex_tr.regex_to_coq(rx)
                except regex_tr.Unsupported as e:
                    raise GenError('unsupported regex construct: %s' % e)
                if w <= 0: raise GenError('a compiled pattern may match the empty string')
                terms.append(t)
            cols.append('[' + ';\n    '.join(terms) + ']')
        rows.append('(%s, (%s,\n   (%s,\n    %s)))' % (lit(k), cols[0], cols[1], cols[2]))
    out = [HEADER % ('oslo_utils/strutils.py (the compiled _SANITIZE_PATTERNS_* objects)', 'tools/gen/gen_C04.py')]
    out.append('Require Import OV.Base.Bytes OV.Base.PyInt OV.Base.Regex.')
    out.append('Open Scope N_scope.')
    out.append('Definition gen_concrete : list (str * (list re * (list re * list re))) := [\n%s].' % ';\n'.join(rows))
    return '\n'.join(out) + '\n'


if __name__ == '__main__':
    sys.stdout.write(generate() if len(sys.argv) < 2 else generate_concrete())
