"""Gen/Insp_EngineCode.v — statement-level translation of the ENGINE methods of
oslo_utils/imageutils/format_inspector.py into Gallina over the model's types (ist X, region, fmt X):

  FileInspector.finish, _capture, eat_chunk, region, region_name, new_region, has_region, delete_region,
  complete, context_info;  EndCaptureRegion.complete, EndCaptureRegion.finish

(CaptureRegion.capture/complete and EndCaptureRegion.capture are in Gen/Insp_Code.v; SafetyCheck.__call__ and
FileInspector.safety_check in Gen/C02_Checks.v.)  The target vocabulary is coq/Model/Insp_PyPrims.v: one Coq definition
per Python construct (set of objects = list of object ids, dict = association list, ...).  The lemmas `*_equiv` of
coq/Proofs/Insp_EngineEquiv.v prove each translation equal to the hand-written model of coq/Model/Insp_Engine.v, so a changed
loop (while -> if), a moved snapshot (known_regions taken after post_process), completion tracked by name instead of by
object, or a dropped `only` filter breaks a PROOF OBLIGATION, not only the correspondence.

The translator is syntax directed and typed; anything outside its subset raises Unsupported -> GenError -> the committed
baseline copy is used (fail closed).  Python types:
  ist (self)  bytes  N  bool  name  region (a region object in hand)  obj (a region object in a set: its identity)
  regions (list of region objects)  items (list of (name, region))  names (list / set of names)  optnames (None | list of names)
  idset (set of region objects)  spec (a freshly constructed CaptureRegion / EndCaptureRegion passed to new_region)
"""
import ast
from common import *

SRC = 'oslo_utils/imageutils/format_inspector.py'

class Unsupported(Exception):
    pass

EXN = {'RuntimeError', 'ImageFormatError', 'ValueError', 'KeyError'}

class Eng:
    """translator for one method; `mode`:
         'proc'  body is a statement list acting on self, result  ist X * option exn
         'val'   body computes a value (may raise -> res T)
         'region' self is a region object (EndCaptureRegion methods)"""
    def __init__(self, name, params, sigs, mode):
        self.name = name
        self.env = dict(params)
        self.sigs = sigs               # method name -> (coq name, [param types], kind, ret type)
        self.mode = mode
        self.aux = []
        self.nloop = 0
        self.ntmp = 0
        self.ret_ty = None
        self.raises = False

    def src(self, e): return ast.unparse(e)
    def fresh(self, b='tmp'):
        self.ntmp += 1
        return '%s%d__' % (b, self.ntmp)

    # ------------------------------------------------------------------ pure expressions
    def truth(self, e):
        c, t = self.expr(e)
        if t == 'bool': return c
        if t in ('idset', 'names', 'regions', 'items'): return '(py_truthy %s)' % c
        if t == 'optnames': return '(py_opt_truthy %s)' % c
        raise Unsupported('truthiness of %s: %s' % (t, self.src(e)))

    def expr(self, e):
        s = self.src(e)
        if isinstance(e, ast.Constant):
            if e.value is True: return 'true', 'bool'
            if e.value is False: return 'false', 'bool'
            if e.value is None: return 'None', 'none'
            raise Unsupported('constant ' + s)
        if isinstance(e, ast.Name):
            if e.id not in self.env: raise Unsupported('unknown name ' + e.id)
            return e.id, self.env[e.id]
        if self.mode == 'region':
            if s == 'super().complete': return '(base_complete self)', 'bool'
            if s == 'self._complete': return '(r_fin self)', 'bool'
        else:
            if s == 'self._total_count': return '(i_pos self)', 'N'
            if s == 'self._finished': return '(i_fin self)', 'bool'
            if s == 'self._capture_regions.values()': return '(py_values self)', 'regions'
            if s == 'self._capture_regions.items()': return '(py_items self)', 'items'
            if s == 'self._capture_regions': return '(py_keys self)', 'names'
        if isinstance(e, ast.Attribute) and isinstance(e.value, ast.Name) and self.env.get(e.value.id) == 'region':
            if e.attr == 'complete': return '(py_region_complete %s)' % e.value.id, 'bool'
            if e.attr == 'data': return '(r_data %s)' % e.value.id, 'bytes'
            raise Unsupported('region attribute ' + e.attr)
        if isinstance(e, ast.UnaryOp) and isinstance(e.op, ast.Not):
            return '(negb %s)' % self.truth(e.operand), 'bool'
        if isinstance(e, ast.BoolOp):
            return '(' + (' && ' if isinstance(e.op, ast.And) else ' || ').join(self.truth(v) for v in e.values) + ')', 'bool'
        if isinstance(e, ast.BinOp) and isinstance(e.op, ast.Sub):
            a, ta = self.expr(e.left); b, tb = self.expr(e.right)
            if ta == tb == 'idset': return '(py_diff %s %s)' % (a, b), 'idset'
            if ta == tb == 'names': return '(py_diff_names %s %s)' % (a, b), 'names'
            raise Unsupported('%s - %s' % (ta, tb))
        if isinstance(e, ast.BinOp) and isinstance(e.op, ast.Add):
            a, ta = self.expr(e.left); b, tb = self.expr(e.right)
            if ta == tb == 'N': return '(%s + %s)' % (a, b), 'N'
            raise Unsupported('%s + %s' % (ta, tb))
        if isinstance(e, ast.Compare) and len(e.ops) == 1:
            op = e.ops[0]
            if isinstance(op, ast.Is) and isinstance(e.left, ast.Subscript) and self.src(e.left.value) == 'self._capture_regions':
                b, tb = self.expr(e.comparators[0]); kx, tk = self.expr(e.left.slice)
                if tb != 'obj' or tk != 'name': raise Unsupported('is: ' + s)
                return '(py_item_is self %s %s)' % (kx, b), 'bool'
            a, ta = self.expr(e.left); b, tb = self.expr(e.comparators[0])
            if isinstance(op, (ast.In, ast.NotIn)) and ta == 'name':
                if tb == 'optnames': c = '(mem_rname %s (py_opt_list %s))' % (a, b)
                elif tb == 'names' and b == '(py_keys self)': c = '(py_contains self %s)' % a
                elif tb == 'names': c = '(mem_rname %s %s)' % (a, b)
                else: raise Unsupported('in ' + tb)
                return (c if isinstance(op, ast.In) else '(negb %s)' % c), 'bool'
            if isinstance(op, ast.Is) and tb == 'obj':
                l = e.left
                if isinstance(l, ast.Subscript) and self.src(l.value) == 'self._capture_regions':
                    k, tk = self.expr(l.slice)
                    if tk != 'name': raise Unsupported('subscript type')
                    return '(py_item_is self %s %s)' % (k, b), 'bool'
            raise Unsupported('comparison ' + s)
        if isinstance(e, ast.Call):
            fn = self.src(e.func)
            if fn == 'len' and len(e.args) == 1:
                a, ta = self.expr(e.args[0])
                if ta == 'bytes': return '(flen %s)' % a, 'N'
            if fn == 'set' and len(e.args) == 1:
                a, ta = self.expr(e.args[0])
                if ta == 'regions': return '(py_idset %s)' % a, 'idset'
            if fn == 'isinstance' and len(e.args) == 2 and self.src(e.args[1]) == 'EndCaptureRegion':
                a, ta = self.expr(e.args[0])
                if ta == 'region': return '(py_isinstance_end %s)' % a, 'bool'
            if fn == 'all' and len(e.args) == 1 and isinstance(e.args[0], ast.GeneratorExp):
                var, it, ty, conds = self.comp_head(e.args[0])
                if conds: raise Unsupported('all() with a filter')
                sub = self.sub(var)
                return '(forallb (fun %s => %s) %s)' % (self.pat(var), sub.truth(e.args[0].elt), it), 'bool'
            if fn.startswith('self.') and fn[5:] in self.sigs and self.sigs[fn[5:]][2] == 'pure':
                cn, ptys, _, rty = self.sigs[fn[5:]]
                return '(%s self%s)' % (cn, ''.join(' ' + a for a in self.args(e, ptys))), rty
            raise Unsupported('call ' + s)
        if isinstance(e, ast.SetComp):
            var, it, ty, conds = self.comp_head(e)
            sub = self.sub(var)
            flt = it if not conds else '(filter (fun %s => %s) %s)' % (self.pat(var), ' && '.join(sub.truth(c) for c in conds), it)
            el = self.src(e.elt)
            if ty == 'regions' and el == var[0]: return '(py_idset %s)' % flt, 'idset'
            if ty == 'items' and el == var[1]: return '(py_idset (map snd %s))' % flt, 'idset'
            if ty == 'items' and el == var[0]: return '(map fst %s)' % flt, 'names'
            raise Unsupported('set comprehension ' + s)
        if isinstance(e, ast.DictComp):
            var, it, ty, conds = self.comp_head(e)
            if conds or ty != 'items' or self.src(e.key) != var[0]: raise Unsupported('dict comprehension ' + s)
            sub = self.sub(var)
            v, tv = sub.expr(e.value)
            if tv != 'N': raise Unsupported('dict comprehension value ' + tv)
            return '(map (fun %s => (%s, %s)) %s)' % (self.pat(var), var[0], v, it), 'ctx'
        raise Unsupported('expression ' + s)

    def comp_head(self, e):
        if len(e.generators) != 1 or e.generators[0].is_async: raise Unsupported('comprehension shape')
        g = e.generators[0]
        it, ty = self.expr(g.iter)
        if ty == 'regions' and isinstance(g.target, ast.Name): var = (g.target.id,)
        elif ty == 'items' and isinstance(g.target, ast.Tuple) and len(g.target.elts) == 2 and all(isinstance(x, ast.Name) for x in g.target.elts):
            var = tuple(x.id for x in g.target.elts)
        elif ty == 'idset' and isinstance(g.target, ast.Name): var = (g.target.id,)
        else: raise Unsupported('comprehension over ' + ty)
        return var, it, ty, g.ifs
    def pat(self, var):
        return var[0] if len(var) == 1 else "'(%s, %s)" % var
    def sub(self, var, objty=None):
        t = Eng(self.name, self.env, self.sigs, self.mode)
        t.env = dict(self.env)
        if len(var) == 1: t.env[var[0]] = objty or 'region'
        else: t.env[var[0]] = 'name'; t.env[var[1]] = 'region'
        return t

    def args(self, call, ptys):
        if call.keywords and not (len(call.keywords) == 1 and call.keywords[0].arg == 'only'): raise Unsupported('keywords: ' + self.src(call))
        given = list(call.args) + [k.value for k in call.keywords]
        out = []
        for a, want in zip(given, ptys):
            c, t = self.expr(a)
            if want == 'optnames' and t == 'names': c, t = '(Some %s)' % c, 'optnames'
            if want == 'obj' and t == 'region': c, t = '(r_id %s)' % c, 'obj'
            if t != want: raise Unsupported('argument %s : %s, wanted %s' % (self.src(a), t, want))
            out.append(c)
        for want in ptys[len(given):]:
            if want == 'optnames': out.append('None')
            else: raise Unsupported('missing argument of type ' + want)
        return out

    # ------------------------------------------------------------------ raising expressions: -> (coq of type res T, T)
    def rexpr(self, e):
        s = self.src(e)
        if isinstance(e, ast.Subscript) and self.src(e.value) == 'self._capture_regions':
            k, tk = self.expr(e.slice)
            if tk != 'name': raise Unsupported('subscript')
            return '(py_getitem self %s)' % k, 'region'
        if isinstance(e, ast.Call) and self.src(e.func).startswith('self.') and self.src(e.func)[5:] in self.sigs \
                and self.sigs[self.src(e.func)[5:]][2] == 'res':
            cn, ptys, _, rty = self.sigs[self.src(e.func)[5:]]
            return '(%s self%s)' % (cn, ''.join(' ' + a for a in self.args(e, ptys))), rty
        if isinstance(e, ast.ListComp):
            if len(e.generators) != 1 or e.generators[0].ifs or not isinstance(e.generators[0].target, ast.Name): raise Unsupported('list comprehension')
            it, ty = self.expr(e.generators[0].iter)
            if ty != 'idset': raise Unsupported('list comprehension over ' + ty)
            v = e.generators[0].target.id
            sub = self.sub((v,), 'obj')
            c, t = sub.rexpr(e.elt)
            if t != 'name': raise Unsupported('list comprehension element ' + t)
            return '(py_mapM (fun %s => %s) %s)' % (v, c, it), 'names'
        return None

    # ------------------------------------------------------------------ statements (procedures: value ist X * option exn)
    def ok(self): return '(self, None)'
    def block(self, ss, k):
        """k: text to continue with when the block falls off its end"""
        if not ss: return k
        s, rest = ss[0], ss[1:]
        nxt = lambda: self.block(rest, k)
        if isinstance(s, ast.Expr) and isinstance(s.value, ast.Constant) and isinstance(s.value.value, str): return nxt()
        if isinstance(s, ast.Pass): return nxt()
        if isinstance(s, ast.Raise):
            exc = s.exc
            nm = exc.func.id if isinstance(exc, ast.Call) and isinstance(exc.func, ast.Name) else None
            if nm not in EXN: raise Unsupported('raise ' + self.src(s))
            return self.raise_(nm)
        if isinstance(s, ast.Return):
            return self.ret(s.value)
        if isinstance(s, ast.AugAssign) and isinstance(s.op, ast.Add) and self.src(s.target) == 'self._total_count':
            v, tv = self.expr(s.value)
            if tv != 'N': raise Unsupported('+= ' + tv)
            return 'let self := py_set_total self ((i_pos self) + %s) in\n%s' % (v, nxt())
        if isinstance(s, ast.Assign) and len(s.targets) == 1:
            tg = s.targets[0]; ts = self.src(tg)
            if ts == 'self._finished':
                v, tv = self.expr(s.value)
                if tv != 'bool': raise Unsupported('_finished := ' + tv)
                return 'let self := py_set_finished self %s in\n%s' % (v, nxt())
            if self.mode == 'region' and ts == 'self._complete':
                v, tv = self.expr(s.value)
                if tv != 'bool': raise Unsupported('_complete := ' + tv)
                return 'let self := set_fin self %s in\n%s' % (v, nxt())
            if isinstance(tg, ast.Subscript) and self.src(tg.value) == 'self._capture_regions':
                kx, tk = self.expr(tg.slice); v, tv = self.expr(s.value)
                if tk != 'name' or tv != 'spec': raise Unsupported('dict store %s := %s' % (tk, tv))
                return 'let self := py_setitem_new self %s %s in\n%s' % (kx, v, nxt())
            if isinstance(tg, ast.Name):
                r = self.rexpr(s.value)
                if r is not None:
                    c, t = r
                    self.bind(tg.id, t)
                    return 'match %s with Exn e__ => %s | Ok %s =>\n%s end' % (c, self.raise_var('e__'), tg.id, nxt())
                v, tv = self.expr(s.value)
                self.bind(tg.id, tv)
                return 'let %s := %s in\n%s' % (tg.id, v, nxt())
            raise Unsupported('assignment ' + self.src(s))
        if isinstance(s, ast.Delete) and len(s.targets) == 1 and isinstance(s.targets[0], ast.Subscript) \
                and self.src(s.targets[0].value) == 'self._capture_regions':
            kx, tk = self.expr(s.targets[0].slice)
            if tk != 'name': raise Unsupported('del key type')
            return self.seq('(py_delitem self %s)' % kx, nxt())
        if isinstance(s, ast.Expr) and isinstance(s.value, ast.Call):
            return self.call_stmt(s.value, nxt)
        if isinstance(s, ast.If):
            c = self.truth(s.test)
            saved = dict(self.env)
            a = self.block(s.body + rest, k); self.env = dict(saved)
            b = self.block(s.orelse + rest, k); self.env = dict(saved)
            return 'if %s then (\n%s) else (\n%s)' % (c, a, b)
        if isinstance(s, ast.While):
            return self.while_(s, nxt)
        if isinstance(s, ast.For):
            return self.for_(s, rest, k)
        raise Unsupported('statement ' + self.src(s).split('\n')[0])

    def bind(self, name, ty):
        if name in self.env and self.env[name] != ty: raise Unsupported('%s retyped %s -> %s' % (name, self.env[name], ty))
        self.env[name] = ty

    def raise_(self, nm):
        self.raises = True
        if self.mode == 'proc': return '(self, Some %s)' % nm
        return 'Exn %s' % nm
    def raise_var(self, v):
        self.raises = True
        if self.mode == 'proc': return '(self, Some %s)' % v
        return 'Exn %s' % v
    def ret(self, value):
        if self.mode == 'proc':
            if value is not None: raise Unsupported('return of a value from a procedure')
            return self.ok()
        r = self.rexpr(value)
        if r is not None:
            self.raises = True; self.ret_ty = r[1]
            return 'RES(%s)' % r[0]
        v, tv = self.expr(value)
        self.ret_ty = tv
        return 'RET(%s)' % v
    def seq(self, call, nxt):
        """call : ist X * option exn"""
        return 'match %s with (self, Some e__) => (self, Some e__) | (self, None) =>\n%s end' % (call, nxt)

    def call_stmt(self, call, nxt):
        fn = self.src(call.func)
        # hooks of the format
        if fn == 'self.post_process' and not call.args: return self.seq('(f_post F self)', nxt())
        if fn == 'self.region_complete' and len(call.args) == 1:
            r = self.rexpr(call.args[0])
            if r is not None:
                if r[1] != 'name': raise Unsupported('region_complete argument')
                t = self.fresh()
                return 'match %s with Exn e__ => %s | Ok %s =>\n%s end' % (r[0], self.raise_var('e__'), t, self.seq('(f_rcomplete F %s self)' % t, nxt()))
            a, ta = self.expr(call.args[0])
            if ta != 'name': raise Unsupported('region_complete argument ' + ta)
            return self.seq('(f_rcomplete F %s self)' % a, nxt())
        if fn.startswith('self.') and fn[5:] in self.sigs and self.sigs[fn[5:]][2] == 'proc':
            cn, ptys, _, _ = self.sigs[fn[5:]]
            # raising arguments are evaluated first
            binds = []
            given = list(call.args) + [k.value for k in call.keywords]
            new_args = []
            for a in given:
                r = self.rexpr(a)
                if r is not None:
                    t = self.fresh(); binds.append((t, r[0])); self.env[t] = r[1]
                    new_args.append(ast.Name(id=t, ctx=ast.Load()))
                else: new_args.append(a)
            c2 = ast.Call(func=call.func, args=new_args[:len(call.args)],
                          keywords=[ast.keyword(arg=k.arg, value=v) for k, v in zip(call.keywords, new_args[len(call.args):])])
            body = self.seq('(%s F self%s)' % (cn, ''.join(' ' + a for a in self.args(c2, ptys))), nxt())
            for t, c in reversed(binds):
                body = 'match %s with Exn e__ => %s | Ok %s =>\n%s end' % (c, self.raise_var('e__'), t, body)
            return body
        # method of a region object in hand (inside `for .. in items/values`)
        if isinstance(call.func, ast.Attribute) and isinstance(call.func.value, ast.Name) and self.env.get(call.func.value.id) == 'region':
            raise Unsupported('region method outside a region loop')
        raise Unsupported('call statement ' + self.src(call))

    # `while C: body` -> fuelled Fixpoint over (self, variables assigned in the body)
    def while_(self, s, nxt):
        if s.orelse: raise Unsupported('while-else')
        for n in ast.walk(s):
            if isinstance(n, (ast.Break, ast.Continue, ast.Return)): raise Unsupported('control flow in while')
        assigned = []
        for n in ast.walk(ast.Module(body=s.body, type_ignores=[])):
            if isinstance(n, ast.Assign) and isinstance(n.targets[0], ast.Name) and n.targets[0].id not in assigned: assigned.append(n.targets[0].id)
        for v in assigned:
            if v not in self.env: raise Unsupported('loop variable %s first bound inside the loop' % v)
        free = [(n, t) for n, t in self.env.items() if n not in assigned]
        self.nloop += 1
        lname = '%s_loop%d' % (self.name, self.nloop)
        cond = self.truth(s.test)
        tup = '(' + ', '.join(assigned) + ')' if len(assigned) != 1 else assigned[0]
        tupty = ' * '.join(COQ[self.env[v]] for v in assigned)
        callargs = ''.join(' ' + n for n, _ in free) + ' self' + ''.join(' ' + v for v in assigned)
        sub = Eng(self.name, self.env, self.sigs, 'proc'); sub.env = dict(self.env); sub.nloop = self.nloop; sub.ntmp = self.ntmp
        sub.raise_ = lambda nm: '(self, Exn %s)' % nm
        sub.raise_var = lambda v: '(self, Exn %s)' % v
        sub.seq = lambda call, nx: 'match %s with (self, Some e__) => (self, Exn e__) | (self, None) =>\n%s end' % (call, nx)
        body = sub.block(s.body, '%s fuel__ F%s' % (lname, callargs))
        self.ntmp = sub.ntmp
        params = ''.join(' (%s : %s)' % (n, COQ[t]) for n, t in free) + ' (self : ist X)' + ''.join(' (%s : %s)' % (v, COQ[self.env[v]]) for v in assigned)
        self.aux.append('Fixpoint %s {X} (fuel_ : nat) (F : fmt X)%s {struct fuel_} : ist X * res (%s) :=\n'
                        '  if %s then (\n  match fuel_ with O => (self, Exn OtherError) | S fuel__ =>\n%s end) else (self, Ok %s).\n'
                        % (lname, params, tupty, cond, body, tup))
        self.raises = True
        return 'match %s eat_fuel F%s with (self, Exn e__) => (self, Some e__) | (self, Ok %s) =>\n%s end' % (lname, callargs, tup, nxt())

    # for loops
    def for_(self, s, rest, k):
        if s.orelse: raise Unsupported('for-else')
        it, ty = self.expr(s.iter)
        # (a) over the dictionary, mutating the region objects: body becomes a function name -> region -> region
        if ty in ('items', 'regions'):
            if ty == 'items':
                if not (isinstance(s.target, ast.Tuple) and len(s.target.elts) == 2 and all(isinstance(x, ast.Name) for x in s.target.elts)): raise Unsupported('for target')
                nv, rv = s.target.elts[0].id, s.target.elts[1].id
            else:
                if not isinstance(s.target, ast.Name): raise Unsupported('for target')
                nv, rv = '_name', s.target.id
            sub = Eng(self.name, self.env, self.sigs, self.mode); sub.env = dict(self.env); sub.env[nv] = 'name'; sub.env[rv] = 'region'
            body = sub.region_body(s.body, rv)
            return 'let self := py_for_items self (fun %s %s =>\n%s) in\n%s' % (nv, rv, body, self.block(rest, k))
        # (b) over a set of objects / names, statements that may raise
        if ty in ('idset', 'names') and isinstance(s.target, ast.Name):
            v = s.target.id
            sub = Eng(self.name, self.env, self.sigs, 'proc'); sub.env = dict(self.env); sub.env[v] = 'obj' if ty == 'idset' else 'name'
            sub.ntmp = self.ntmp
            for n in ast.walk(s):
                if isinstance(n, (ast.Break, ast.Continue, ast.Return)): raise Unsupported('control flow in for')
            body = sub.block(s.body, '(self, None)')
            self.ntmp = sub.ntmp
            return self.seq('(py_for_each %s (fun %s self =>\n%s) self)' % (it, v, body), self.block(rest, k))
        raise Unsupported('for over ' + ty)

    def region_body(self, ss, rv):
        """statements acting on the region object rv only (no raise, no access to self beyond reads): -> region"""
        if not ss: return rv
        s, rest = ss[0], ss[1:]
        if isinstance(s, ast.Continue): return rv
        if isinstance(s, ast.Pass): return self.region_body(rest, rv)
        if isinstance(s, ast.If):
            c = self.truth(s.test)
            return 'if %s then (%s) else (%s)' % (c, self.region_body(s.body + rest, rv), self.region_body(s.orelse + rest, rv))
        if isinstance(s, ast.Expr) and isinstance(s.value, ast.Call) and isinstance(s.value.func, ast.Attribute) \
                and isinstance(s.value.func.value, ast.Name) and s.value.func.value.id == rv and not s.value.keywords:
            m = s.value.func.attr
            if m == 'capture' and len(s.value.args) == 2:
                a, ta = self.expr(s.value.args[0]); b, tb = self.expr(s.value.args[1])
                if (ta, tb) != ('bytes', 'N'): raise Unsupported('capture arguments')
                return 'let %s := py_region_capture %s %s %s in %s' % (rv, rv, a, b, self.region_body(rest, rv))
            if m == 'finish' and not s.value.args:
                return 'let %s := gen_end_finish %s in %s' % (rv, rv, self.region_body(rest, rv))
        raise Unsupported('statement in a region loop: ' + self.src(s).split('\n')[0])

    # `for name in self._capture_regions: if T: return name` followed by a raise  (region_name)
    def find_loop(self, ss):
        if len(ss) == 2 and isinstance(ss[0], ast.For) and isinstance(ss[1], ast.Raise) and self.src(ss[0].iter) == 'self._capture_regions' \
                and isinstance(ss[0].target, ast.Name) and len(ss[0].body) == 1 and isinstance(ss[0].body[0], ast.If) and not ss[0].body[0].orelse \
                and len(ss[0].body[0].body) == 1 and isinstance(ss[0].body[0].body[0], ast.Return) \
                and self.src(ss[0].body[0].body[0].value) == ss[0].target.id and not ss[0].orelse:
            v = ss[0].target.id
            sub = Eng(self.name, self.env, self.sigs, self.mode); sub.env = dict(self.env); sub.env[v] = 'name'
            test = sub.truth(ss[0].body[0].test)
            exc = ss[1].exc
            nm = exc.func.id if isinstance(exc, ast.Call) and isinstance(exc.func, ast.Name) else None
            if nm not in EXN: raise Unsupported('raise')
            self.raises = True; self.ret_ty = 'name'
            return 'match py_find_key self (fun %s => %s) with Some %s => Ok %s | None => Exn %s end' % (v, test, v, v, nm)
        return None

COQ = {'ist': 'ist X', 'bytes': 'bytes', 'N': 'N', 'bool': 'bool', 'name': 'rname', 'region': 'region', 'obj': 'nat', 'regions': 'list region',
       'items': 'list (rname * region)', 'names': 'list rname', 'optnames': 'option (list rname)', 'idset': 'list nat', 'spec': 'rspec',
       'ctx': 'list (rname * N)'}

# method -> (coq name, [(param, type)], kind, declared return type)
METHODS = [
    ('FileInspector', 'has_region', 'gen_has_region', [('name', 'name')], 'pure', 'bool'),
    ('FileInspector', 'region', 'gen_region', [('name', 'name')], 'res', 'region'),
    ('FileInspector', 'region_name', 'gen_region_name', [('region', 'obj')], 'res', 'name'),
    ('FileInspector', 'new_region', 'gen_new_region', [('name', 'name'), ('region', 'spec')], 'proc', None),
    ('FileInspector', 'delete_region', 'gen_delete_region', [('name', 'name')], 'proc', None),
    ('FileInspector', 'finish', 'gen_finish', [], 'total', None),
    ('FileInspector', '_capture', 'gen__capture', [('chunk', 'bytes'), ('only', 'optnames')], 'proc', None),
    ('FileInspector', 'eat_chunk', 'gen_eat_chunk', [('chunk', 'bytes')], 'proc', None),
    ('FileInspector', 'complete', 'gen_inspector_complete', [], 'pure', 'bool'),
    ('FileInspector', 'context_info', 'gen_context_info', [], 'pure', 'ctx'),
]

def _fn(tree, cls, name):
    for n in tree.body:
        if isinstance(n, ast.ClassDef) and n.name == cls:
            for f in n.body:
                if isinstance(f, ast.FunctionDef) and f.name == name: return f
    raise GenError('%s.%s not found' % (cls, name))

def generate():
    import gen_insp, failclosed
    failclosed.check_all(gen_insp.FAILCLOSED['generate'])      # the class / method tables of the inspector model
    tree = repo_ast(SRC)
    out = [HEADER % (SRC, 'tools/gen/gen_insp_engine.py'),
           'Require Import OV.Base.Bytes OV.Base.Py OV.Base.Insp_Struct OV.Gen.Insp_Consts OV.Model.Insp_Engine OV.Model.Insp_PyPrims.\nOpen Scope N_scope.\n']
    try:
        # EndCaptureRegion.complete / finish (self is the region object)
        f = _fn(tree, 'EndCaptureRegion', 'complete')
        t = Eng('gen_end_complete', {}, {}, 'region')
        body = t.block(f.body, 'RET(tt)')
        if t.ret_ty != 'bool' or t.raises: raise Unsupported('EndCaptureRegion.complete')
        out.append('Definition gen_end_complete (self : region) : bool :=\n%s.\n' % body.replace('RET(', '('))
        f = _fn(tree, 'EndCaptureRegion', 'finish')
        t = Eng('gen_end_finish', {}, {}, 'region'); t.ok = lambda: 'self'
        t.mode = 'region'
        body = t.block([s for s in f.body], 'self')
        out.append('Definition gen_end_finish (self : region) : region :=\n%s.\n' % body)
        sigs = {}
        for cls, m, cn, params, kind, rty in METHODS:
            f = _fn(tree, cls, m)
            argn = [a.arg for a in f.args.args][1:]
            if argn != [p for p, _ in params] or f.args.vararg or f.args.kwarg or f.args.kwonlyargs:
                raise Unsupported('signature of %s: %r' % (m, argn))
            mode = 'proc' if kind in ('proc', 'total') else 'val'
            t = Eng(cn, params, sigs, mode)
            fl = t.find_loop([s for s in f.body if not (isinstance(s, ast.Expr) and isinstance(s.value, ast.Constant))]) if kind == 'res' else None
            if fl is not None: body = fl
            else: body = t.block(f.body, t.ok() if mode == 'proc' else 'RET(tt)')
            ps = ''.join(' (%s : %s)' % (p, COQ[ty]) for p, ty in params)
            if kind == 'proc':
                hdr = 'Definition %s {X}%s (self : ist X)%s : ist X * option exn :=\n' % (cn, ' (F : fmt X)', ps)
                sigs[m] = (cn, [ty for _, ty in params], 'proc', None)
            elif kind == 'total':
                if t.raises: raise Unsupported('%s raises' % m)
                body = body.replace('(self, None)', 'self')
                hdr = 'Definition %s {X} (self : ist X)%s : ist X :=\n' % (cn, ps)
                sigs[m] = (cn, [ty for _, ty in params], 'total', None)
            else:
                if t.ret_ty != rty: raise Unsupported('%s returns %s' % (m, t.ret_ty))
                if kind == 'res':
                    body = body.replace('RES(', '(').replace('RET(', 'Ok (')
                    hdr = 'Definition %s {X} (self : ist X)%s : res %s :=\n' % (cn, ps, COQ[rty])
                else:
                    if t.raises: raise Unsupported('%s raises' % m)
                    body = body.replace('RET(', '(')
                    hdr = 'Definition %s {X} (self : ist X)%s : %s :=\n' % (cn, ps, COQ[rty])
                sigs[m] = (cn, [ty for _, ty in params], kind, rty)
            out.append(''.join(t.aux) + hdr + body + '.\n')
    except Unsupported as e:
        raise GenError('engine translation: ' + str(e))
    return '\n'.join(out)

if __name__ == '__main__':
    import sys
    sys.stdout.write(generate())


# ====================================================================== format_match of the ten inspectors
class Fm:
    """expressions and statements of the format_match properties (and GPT._check_for_fat), in the `res` monad:
    self.region(..) raises KeyError, struct.unpack raises struct.error, bytes indexing raises IndexError."""
    def __init__(self, cls, consts):
        self.cls = cls; self.consts = consts; self.env = {}; self.n = 0
    def src(self, e): return ast.unparse(e)
    def fresh(self):
        self.n += 1
        return 't%d__' % self.n
    def lit(self, b): return '(%s%%N : bytes)' % lit(b)

    def mx(self, e):
        """-> (binds [(var, coq res expr)], coq pure expr, type)"""
        s = self.src(e)
        if isinstance(e, ast.Constant):
            v = e.value
            if v is True: return [], 'true', 'bool'
            if v is False: return [], 'false', 'bool'
            if isinstance(v, int): return [], '%d' % v, 'N'
            if isinstance(v, (bytes, str)): return [], self.lit(v if isinstance(v, bytes) else v.encode('latin-1')), 'bytes'
            raise Unsupported('constant ' + s)
        if isinstance(e, ast.Name):
            if e.id not in self.env: raise Unsupported('name ' + e.id)
            return [], e.id, self.env[e.id]
        if isinstance(e, ast.Attribute) and isinstance(e.value, ast.Name) and e.value.id == 'self':
            if e.attr == 'complete': return [], '(gen_inspector_complete self)', 'bool'
            if e.attr == 'vmdktype' and self.cls == 'VMDKInspector': return [], '(v_vmdktype (i_ext self))', 'bytes'
            if e.attr in self.consts: return [], '%d' % self.consts[e.attr], 'N'
            raise Unsupported('attribute ' + s)
        if isinstance(e, ast.Call):
            fn = self.src(e.func)
            if fn == 'self.region' and len(e.args) == 1 and isinstance(e.args[0], ast.Constant) and isinstance(e.args[0].value, str):
                t = self.fresh()
                return [(t, '(gen_region self R_%s)' % e.args[0].value)], t, 'region'
            if fn == 'self.has_region' and len(e.args) == 1 and isinstance(e.args[0], ast.Constant):
                return [], '(gen_has_region self R_%s)' % e.args[0].value, 'bool'
            if fn == 'self._check_for_fat' and not e.args and self.cls == 'GPTInspector':
                t = self.fresh()
                return [(t, '(gen_gpt_check_for_fat self)')], t, 'bool'
            if fn == 'self.qemu_header_info.get' and len(e.args) == 1 and self.src(e.args[0]) == "'magic'" and self.cls == 'QcowInspector':
                return [], '(option_map q_magic (i_ext self))', 'optbytes'
            if isinstance(e.func, ast.Attribute) and e.func.attr == 'startswith' and len(e.args) == 1:
                b1, a, ta = self.mx(e.func.value); b2, p, tp = self.mx(e.args[0])
                if ta != 'bytes' or tp != 'bytes': raise Unsupported('startswith types')
                return b1 + b2, '(prefixb %s %s)' % (p, a), 'bool'
            raise Unsupported('call ' + s)
        if isinstance(e, ast.Attribute):
            b, a, ta = self.mx(e.value)
            if ta == 'region' and e.attr == 'data': return b, '(r_data %s)' % a, 'bytes'
            if ta == 'region' and e.attr == 'complete': return b, '(py_region_complete %s)' % a, 'bool'
            raise Unsupported('attribute ' + s)
        if isinstance(e, ast.Subscript):
            b, a, ta = self.mx(e.value)
            if ta != 'bytes': raise Unsupported('subscript of ' + ta)
            if isinstance(e.slice, ast.Slice):
                if e.slice.step is not None: raise Unsupported('step')
                lo = self.const_int(e.slice.lower) if e.slice.lower is not None else None
                hi = self.const_int(e.slice.upper) if e.slice.upper is not None else None
                if lo is None and hi is not None: return b, '(ntake %d %s)' % (hi, a), 'bytes'
                if lo is not None and hi is not None: return b, '(nsub %d %d %s)' % (lo, hi, a), 'bytes'
                if lo is not None and hi is None: return b, '(nskip %d %s)' % (lo, a), 'bytes'
                raise Unsupported('slice ' + s)
            i = self.const_int(e.slice)
            t = self.fresh()
            return b + [(t, '(bidx %s %d)' % (a, i))], t, 'N'
        if isinstance(e, ast.UnaryOp) and isinstance(e.op, ast.Not):
            b, a, ta = self.mx(e.operand)
            if ta != 'bool': raise Unsupported('not ' + ta)
            return b, '(negb %s)' % a, 'bool'
        if isinstance(e, ast.BoolOp) and isinstance(e.op, ast.And):
            # Python's `and` is lazy; only pure operands are translated (no binds after the first operand)
            parts = [self.mx(v) for v in e.values]
            if any(p[0] for p in parts[1:]) or any(p[2] != 'bool' for p in parts): raise Unsupported('and with effects: ' + s)
            return parts[0][0], '(' + ' && '.join(p[1] for p in parts) + ')', 'bool'
        if isinstance(e, ast.Compare) and len(e.ops) == 1:
            op = e.ops[0]
            b1, a, ta = self.mx(e.left); b2, c, tc = self.mx(e.comparators[0]) if not isinstance(e.comparators[0], ast.Tuple) else ([], None, 'tuple')
            if isinstance(op, (ast.Eq, ast.NotEq)):
                if ta == tc == 'bytes': r = '(beq %s %s)' % (a, c)
                elif ta == tc == 'N': r = '(%s =? %s)' % (a, c)
                elif ta == 'optbytes' and tc == 'bytes': r = '(match %s with Some m__ => beq m__ %s | None => false end)' % (a, c)
                else: raise Unsupported('== on %s, %s' % (ta, tc))
                return b1 + b2, (r if isinstance(op, ast.Eq) else '(negb %s)' % r), 'bool'
            if isinstance(op, ast.In) and tc == 'tuple' and ta == 'bytes':
                els = e.comparators[0].elts
                if not all(isinstance(x, ast.Constant) and isinstance(x.value, bytes) for x in els): raise Unsupported('in tuple')
                return b1, '(mem_str %s [%s])' % (a, '; '.join(self.lit(x.value) for x in els)), 'bool'
        raise Unsupported('expression ' + s)

    def const_int(self, e):
        if isinstance(e, ast.Constant) and isinstance(e.value, int) and not isinstance(e.value, bool): return e.value
        raise Unsupported('non-literal index ' + self.src(e))

    def wrap(self, binds, body):
        for v, c in reversed(binds): body = 'do %s <- %s;\n%s' % (v, c, body)
        return body

    def block(self, ss):
        if not ss: raise Unsupported('falls off the end')
        s, rest = ss[0], ss[1:]
        if isinstance(s, ast.Expr) and isinstance(s.value, ast.Constant) and isinstance(s.value.value, str): return self.block(rest)
        if isinstance(s, ast.Return):
            b, a, ta = self.mx(s.value)
            if ta != 'bool': raise Unsupported('returns ' + ta)
            return self.wrap(b, 'Ok %s' % a)
        if isinstance(s, ast.If):
            b, c, tc = self.mx(s.test)
            if tc != 'bool': raise Unsupported('if on ' + tc)
            saved = dict(self.env)
            th = self.block(s.body + rest); self.env = dict(saved)
            el = self.block(s.orelse + rest); self.env = dict(saved)
            return self.wrap(b, 'if %s then (\n%s) else (\n%s)' % (c, th, el))
        if isinstance(s, ast.Assign) and len(s.targets) == 1:
            tg = s.targets[0]
            # x, = struct.unpack(fmt, data)
            if isinstance(tg, ast.Tuple) and len(tg.elts) == 1 and isinstance(tg.elts[0], ast.Name) and isinstance(s.value, ast.Call) \
                    and self.src(s.value.func) == 'struct.unpack' and len(s.value.args) == 2 and isinstance(s.value.args[0], ast.Constant):
                import gen_insp
                big, size, fields = gen_insp.parse_struct(s.value.args[0].value)
                if len(fields) != 1: raise Unsupported('unpack arity')
                sf = '(mkSfmt %s %d [(%d, %d)])' % ('true' if big else 'false', size, fields[0][0], fields[0][1])
                b, a, ta = self.mx(s.value.args[1])
                if ta != 'bytes': raise Unsupported('unpack of ' + ta)
                u = self.fresh()
                self.env[tg.elts[0].id] = 'N'
                return self.wrap(b + [(u, '(unpack %s %s)' % (sf, a))], 'let %s := sint %s 0 %s in\n%s' % (tg.elts[0].id, sf, u, self.block(rest)))
            if isinstance(tg, ast.Name):
                b, a, ta = self.mx(s.value)
                self.env[tg.id] = ta
                return self.wrap(b, 'let %s := %s in\n%s' % (tg.id, a, self.block(rest)))
        raise Unsupported('statement ' + self.src(s).split('\n')[0])

FORMAT_CLASSES = [('raw', 'RawFileInspector', 'unit'), ('qcow2', 'QcowInspector', 'qx'), ('qed', 'QEDInspector', 'unit'), ('vhd', 'VHDInspector', 'unit'),
                  ('vhdx', 'VHDXInspector', 'unit'), ('vmdk', 'VMDKInspector', 'vx'), ('vdi', 'VDIInspector', 'unit'), ('iso', 'ISOInspector', 'unit'),
                  ('gpt', 'GPTInspector', 'unit'), ('luks', 'LUKSInspector', 'unit')]

def generate_formats():
    import gen_insp, failclosed
    failclosed.check_all(gen_insp.FAILCLOSED['generate'])
    m = repo_import('oslo_utils.imageutils.format_inspector')
    tree = repo_ast(SRC)
    out = [HEADER % (SRC, 'tools/gen/gen_insp_engine.py (format_match)'),
           'Require Import OV.Base.Bytes OV.Base.Py OV.Base.Insp_Struct OV.Gen.Insp_Consts OV.Model.Insp_Engine OV.Model.Insp_PyPrims OV.Gen.Insp_EngineCode.\n'
           'Require Import OV.Model.Insp_Qcow2 OV.Model.Insp_Vmdk.\nOpen Scope N_scope.\n']
    try:
        for name, cls, xt in FORMAT_CLASSES:
            consts = {k: v for k, v in vars(getattr(m, cls)).items() if k.isupper() and isinstance(v, int)}
            if cls == 'GPTInspector':
                f = _fn(tree, cls, '_check_for_fat')
                t = Fm(cls, consts)
                out.append('Definition gen_gpt_check_for_fat (self : ist unit) : res bool :=\n%s.\n' % t.block(f.body))
            f = _fn(tree, cls, 'format_match')
            t = Fm(cls, consts)
            out.append('Definition gen_%s_format_match (self : ist %s) : res bool :=\n%s.\n' % (name, xt, t.block(f.body)))
    except Unsupported as e:
        raise GenError('format_match translation: ' + str(e))
    return '\n'.join(out)

if __name__ == '__main__' and len(__import__('sys').argv) > 1:
    __import__('sys').stdout.write(generate_formats())
