"""Gen/C06_Wrapper.v from oslo_utils/imageutils/format_inspector.py (InspectWrapper).

Emits  all_formats   : ALL_FORMATS as [(key, class NAME)] in dict order
       gen_shape     : the shape of InspectWrapper._process_chunk read off its AST
                       (errored filter, re-raise test, .add, conjuncts of the early-abort test)
       raw_lit_nonraw, raw_lit_raw : the literals of the two comprehensions in `formats`
       detect_chunk_size : the read size of detect_file_format
Every other method the model transcribes by hand (__init__, __next__, read, _finish, close,
formats, format, detect_file_format, _chunked_reader) is compared, after normalisation, with
the text the model was written from; any difference => GenError (fail closed: the committed
baseline is used and the correspondence check decides).
"""
import ast, copy
from common import *
import failclosed

SRC = 'oslo_utils/imageutils/format_inspector.py'
# every function whose text is compared / read must be the one definition bound to its name, undecorated (but for `property`),
# with the defaults the model was written for (tools/gen/failclosed.py)
FAILCLOSED = {'generate': [{'src': SRC, 'mod': 'oslo_utils.imageutils.format_inspector',
    'classes': {'InspectWrapper': {'bases': []}},
    'functions': {'InspectWrapper.__init__': {'defaults': {'expected_format': 'None', 'allowed_formats': 'None'}},
                  'InspectWrapper.__iter__': {'defaults': {}}, 'InspectWrapper._process_chunk': {'defaults': {}},
                  'InspectWrapper.__next__': {'defaults': {}}, 'InspectWrapper.read': {'defaults': {}},
                  'InspectWrapper._finish': {'defaults': {}}, 'InspectWrapper.close': {'defaults': {}},
                  'InspectWrapper.formats': {'decorators': ['property'], 'defaults': {}},
                  'InspectWrapper.format': {'decorators': ['property'], 'defaults': {}},
                  'detect_file_format': {'defaults': {}}, '_chunked_reader': {'defaults': {'chunk_size': '512'}},
                  'FileInspector.__str__': {'defaults': {}}},
    # `str(x) == 'raw'` in formats: the model compares NAME, i.e. it transcribes FileInspector.__str__ (return self.NAME)
    'shapes': {'FileInspector.__str__': ('08f40b2fdd063b1b', [])}}]}

def _body(fn):
    b = fn.body
    if b and isinstance(b[0], ast.Expr) and isinstance(b[0].value, ast.Constant) and isinstance(b[0].value.value, str):
        b = b[1:]
    return b

class _Norm(ast.NodeTransformer):
    """drop exception messages (raise X('...') -> raise X()); they are not behaviour we model"""
    def visit_Raise(self, n):
        self.generic_visit(n)
        if isinstance(n.exc, ast.Call):
            n.exc = ast.Call(func=n.exc.func, args=[], keywords=[])
        return n

EXPECT = {
 '__init__': ("self._source = source\nself._expected_format = expected_format\nself._errored_inspectors = set()\n"
              "self._inspectors = {v() for k, v in ALL_FORMATS.items() if not allowed_formats or k in allowed_formats}\n"
              "self._finished = False"),
 '__iter__': "return self",
 '__next__': ("try:\n    chunk = next(self._source)\nexcept StopIteration:\n    self._finish()\n    raise\n"
              "self._process_chunk(chunk)\nreturn chunk"),
 'read': "chunk = self._source.read(size)\nself._process_chunk(chunk)\nreturn chunk",
 '_finish': "for inspector in self._inspectors:\n    inspector.finish()\nself._finished = True",
 'close': "if hasattr(self._source, 'close'):\n    self._source.close()\nself._finish()",
 'formats': ("non_raw = {i for i in self._inspectors if i.NAME != <S0>}\n"
             "complete = all([i.complete for i in non_raw])\n"
             "matches = [i for i in non_raw if i.format_match]\n"
             "if not complete and (not self._finished):\n    return None\n"
             "if not matches:\n    try:\n        return [x for x in self._inspectors if str(x) == <S1>]\n"
             "    except IndexError:\n        raise ImageFormatError()\n"
             "return matches"),
 'format': ("matches = self.formats\nif matches is None:\n    return matches\nelif len(matches) > 1:\n"
            "    raise ImageFormatError()\nelse:\n    try:\n        return matches[0]\n"
            "    except IndexError:\n        raise ImageFormatError()"),
 'detect_file_format': ("with open(filename, 'rb') as f:\n    wrapper = InspectWrapper(f)\n    try:\n"
                        "        for _chunk in _chunked_reader(wrapper, <I0>):\n            if wrapper.format:\n"
                        "                return wrapper.format\n    finally:\n        wrapper.close()\n"
                        "    return wrapper.format"),
 '_chunked_reader': "while True:\n    chunk = fileobj.read(chunk_size)\n    if not chunk:\n        break\n    yield chunk",
}
ARGS = {'__init__': ['self', 'source', 'expected_format', 'allowed_formats'], '__iter__': ['self'], '__next__': ['self'],
        'read': ['self', 'size'], '_finish': ['self'], 'close': ['self'], 'formats': ['self'], 'format': ['self'],
        'detect_file_format': ['filename'], '_chunked_reader': ['fileobj', 'chunk_size'], '_process_chunk': ['self', 'chunk']}

def _holes(fn, want_str, want_int):
    """replace (in a copy) the string constants compared with ==/!= and the int call arguments by
    placeholders <S0>,<S1>.. / <I0>..; return (text, strs, ints)"""
    fn = _Norm().visit(copy.deepcopy(fn))
    strs, ints = [], []
    class H(ast.NodeTransformer):
        def visit_Compare(self, n):
            self.generic_visit(n)
            if want_str and len(n.comparators) == 1 and isinstance(n.comparators[0], ast.Constant) \
               and isinstance(n.comparators[0].value, str) and isinstance(n.ops[0], (ast.Eq, ast.NotEq)):
                strs.append(n.comparators[0].value)
                n.comparators[0] = ast.Name(id='<S%d>' % (len(strs) - 1), ctx=ast.Load())
            return n
        def visit_Call(self, n):
            self.generic_visit(n)
            if want_int:
                for i, a in enumerate(n.args):
                    if isinstance(a, ast.Constant) and type(a.value) is int:
                        ints.append(a.value)
                        n.args[i] = ast.Name(id='<I%d>' % (len(ints) - 1), ctx=ast.Load())
            return n
    fn = H().visit(fn)
    return '\n'.join(ast.unparse(s) for s in _body(fn)), strs, ints

def _check_text(name, fn, want_str=False, want_int=False):
    if [a.arg for a in fn.args.args] != ARGS[name] or fn.args.vararg or fn.args.kwarg or fn.args.kwonlyargs:
        raise GenError('%s: parameter list changed' % name)
    text, strs, ints = _holes(fn, want_str, want_int)
    if text != EXPECT[name]:
        raise GenError('%s: body differs from the text the model transcribes' % name)
    return strs, ints

# ---------------------------------------------------------------- _process_chunk

def _is_self_attr(e, attr):
    return isinstance(e, ast.Attribute) and isinstance(e.value, ast.Name) and e.value.id == 'self' and e.attr == attr

def _is_var_attr(e, var, attr):
    return isinstance(e, ast.Attribute) and isinstance(e.value, ast.Name) and e.value.id == var and e.attr == attr

def _name_cmp(e, var):
    """inspector.NAME ==/!= self._expected_format (either way round) -> 'eq' | 'ne' | None"""
    if isinstance(e, ast.Compare) and len(e.ops) == 1 and len(e.comparators) == 1:
        a, b = e.left, e.comparators[0]
        if (_is_var_attr(a, var, 'NAME') and _is_self_attr(b, '_expected_format')) or \
           (_is_var_attr(b, var, 'NAME') and _is_self_attr(a, '_expected_format')):
            if isinstance(e.ops[0], ast.Eq): return 'eq'
            if isinstance(e.ops[0], ast.NotEq): return 'ne'
    return None

def _is_log_call(s):
    return (isinstance(s, ast.Expr) and isinstance(s.value, ast.Call) and isinstance(s.value.func, ast.Attribute)
            and isinstance(s.value.func.value, ast.Name) and s.value.func.value.id == 'LOG')

def _only_logging(stmts):
    return all(_is_log_call(s) or (isinstance(s, ast.If) and _pure_test(s.test) and _only_logging(s.body) and _only_logging(s.orelse))
               for s in stmts)

def _pure_test(e):
    """a test that only reads self._expected_format (cannot raise, no effect)"""
    if isinstance(e, ast.UnaryOp) and isinstance(e.op, ast.Not): return _pure_test(e.operand)
    return _is_self_attr(e, '_expected_format')

def _conjunct(e, var):
    c = _name_cmp(e, var)
    if c: return 'CjNameEq' if c == 'eq' else 'CjNameNe'
    neg = False
    if isinstance(e, ast.UnaryOp) and isinstance(e.op, ast.Not):
        neg, e = True, e.operand
    if _is_var_attr(e, var, 'complete'): return 'CjNotComplete' if neg else 'CjComplete'
    if _is_var_attr(e, var, 'format_match'): return 'CjNotMatch' if neg else 'CjMatch'
    raise GenError('_process_chunk: unknown conjunct %s in the early-abort test' % ast.unparse(e))

def process_chunk_shape(fn):
    if [a.arg for a in fn.args.args] != ARGS['_process_chunk']:
        raise GenError('_process_chunk: parameter list changed')
    chunk = fn.args.args[1].arg
    body = _body(fn)
    if len(body) != 1 or not isinstance(body[0], ast.For) or body[0].orelse:
        raise GenError('_process_chunk: expected a single for loop')
    loop = body[0]
    if not isinstance(loop.target, ast.Name): raise GenError('_process_chunk: loop target')
    var = loop.target.id
    it = loop.iter
    if _is_self_attr(it, '_inspectors'):
        skip = False
    elif isinstance(it, ast.ListComp) and len(it.generators) == 1:
        g = it.generators[0]
        if not (isinstance(g.target, ast.Name) and isinstance(it.elt, ast.Name) and it.elt.id == g.target.id
                and _is_self_attr(g.iter, '_inspectors') and not g.is_async):
            raise GenError('_process_chunk: comprehension is not [i for i in self._inspectors ...]')
        cv = g.target.id
        if len(g.ifs) == 0:
            skip = False
        elif len(g.ifs) == 1:
            t = g.ifs[0]
            if (isinstance(t, ast.Compare) and len(t.ops) == 1 and isinstance(t.ops[0], ast.NotIn)
                    and isinstance(t.left, ast.Name) and t.left.id == cv
                    and _is_self_attr(t.comparators[0], '_errored_inspectors')):
                skip = True
            else:
                raise GenError('_process_chunk: comprehension filter is not `i not in self._errored_inspectors`')
        else:
            raise GenError('_process_chunk: several comprehension filters')
    else:
        raise GenError('_process_chunk: loop iterable')
    if len(loop.body) != 1 or not isinstance(loop.body[0], ast.Try):
        raise GenError('_process_chunk: loop body is not a single try statement')
    tr = loop.body[0]
    if tr.finalbody: raise GenError('_process_chunk: finally clause')
    # try body: inspector.eat_chunk(chunk)
    ok = (len(tr.body) == 1 and isinstance(tr.body[0], ast.Expr) and isinstance(tr.body[0].value, ast.Call)
          and _is_var_attr(tr.body[0].value.func, var, 'eat_chunk') and len(tr.body[0].value.args) == 1
          and isinstance(tr.body[0].value.args[0], ast.Name) and tr.body[0].value.args[0].id == chunk
          and not tr.body[0].value.keywords)
    if not ok: raise GenError('_process_chunk: try body is not inspector.eat_chunk(chunk)')
    if len(tr.handlers) != 1: raise GenError('_process_chunk: expected one except clause')
    h = tr.handlers[0]
    if not (isinstance(h.type, ast.Name) and h.type.id == 'Exception'):
        raise GenError('_process_chunk: handler does not catch Exception')
    reraise, add = 'RrNever', False
    for s in h.body:
        if add: raise GenError('_process_chunk: statements after the .add in the handler')
        if isinstance(s, ast.Raise) and s.exc is None:
            if reraise != 'RrNever': raise GenError('_process_chunk: two raise statements in the handler')
            reraise = 'RrAlways'
        elif (isinstance(s, ast.If) and not s.orelse and len(s.body) == 1 and isinstance(s.body[0], ast.Raise)
              and s.body[0].exc is None and _name_cmp(s.test, var)):
            if reraise != 'RrNever': raise GenError('_process_chunk: two raise statements in the handler')
            reraise = 'RrNameEq' if _name_cmp(s.test, var) == 'eq' else 'RrNameNe'
        elif _only_logging([s]):
            pass
        elif (isinstance(s, ast.Expr) and isinstance(s.value, ast.Call) and isinstance(s.value.func, ast.Attribute)
              and s.value.func.attr == 'add' and _is_self_attr(s.value.func.value, '_errored_inspectors')
              and len(s.value.args) == 1 and isinstance(s.value.args[0], ast.Name) and s.value.args[0].id == var):
            add = True
        else:
            raise GenError('_process_chunk: unexpected statement in the handler: %s' % ast.unparse(s)[:60])
    # else branch: if <conjunction>: raise ImageFormatError(...)
    if len(tr.orelse) != 1 or not isinstance(tr.orelse[0], ast.If) or tr.orelse[0].orelse:
        raise GenError('_process_chunk: else branch is not a single if')
    e = tr.orelse[0]
    if not (len(e.body) == 1 and isinstance(e.body[0], ast.Raise) and isinstance(e.body[0].exc, ast.Call)
            and isinstance(e.body[0].exc.func, ast.Name) and e.body[0].exc.func.id == 'ImageFormatError'):
        raise GenError('_process_chunk: else branch does not raise ImageFormatError')
    t = e.test
    atoms = t.values if isinstance(t, ast.BoolOp) and isinstance(t.op, ast.And) else [t]
    conj = [_conjunct(a, var) for a in atoms]
    return {'skip': skip, 'reraise': reraise, 'add': add, 'else': conj}

def _cls(tree, name):
    for n in tree.body:
        if isinstance(n, ast.ClassDef) and n.name == name: return n
    raise GenError('class %s not found' % name)

def _method(cls, name, prop=False):
    for n in cls.body:
        if isinstance(n, ast.FunctionDef) and n.name == name:
            decs = [ast.unparse(d) for d in n.decorator_list]
            if decs != (['property'] if prop else []):
                raise GenError('%s: decorators changed' % name)
            return n
    raise GenError('method %s not found' % name)

def generate():
    failclosed.check_all(FAILCLOSED['generate'])
    m = repo_import('oslo_utils.imageutils.format_inspector')
    tree = repo_ast(SRC)
    w = _cls(tree, 'InspectWrapper')
    known = {'__init__', '__iter__', '_process_chunk', '__next__', 'read', '_finish', 'close', 'formats', 'format'}
    for n in w.body:
        if isinstance(n, ast.FunctionDef) and n.name not in known:
            raise GenError('InspectWrapper has a method the model does not know: %s' % n.name)
    for name in ('__init__', '__iter__', '__next__', 'read', '_finish', 'close'):
        _check_text(name, _method(w, name))
    strs, _ = _check_text('formats', _method(w, 'formats', prop=True), want_str=True)
    if len(strs) != 2: raise GenError('formats: expected two name literals')
    _check_text('format', _method(w, 'format', prop=True))
    _, ints = _check_text('detect_file_format', find_def(tree, 'detect_file_format'), want_int=True)
    if len(ints) != 1: raise GenError('detect_file_format: chunk size literal')
    _check_text('_chunked_reader', find_def(tree, '_chunked_reader'))
    shape = process_chunk_shape(_method(w, '_process_chunk'))
    af = m.ALL_FORMATS
    if not isinstance(af, dict) or not af: raise GenError('ALL_FORMATS is not a non-empty dict')
    pairs = []
    for k, v in af.items():
        nm = getattr(v, 'NAME', None)
        if not isinstance(k, str) or not isinstance(nm, str): raise GenError('ALL_FORMATS entry %r' % (k,))
        pairs.append((k, nm))
    b = lambda x: 'true' if x else 'false'
    out = [HEADER % (SRC, 'tools/gen/gen_C06.py')]
    out.append('Require Import OV.Base.Bytes OV.Base.C06_WrapShape.')
    out.append('Open Scope N_scope.')
    out.append('(* ALL_FORMATS: (key, class NAME), dict order *)')
    out.append('Definition all_formats : list (str * str) :=\n  [%s].' % ';\n   '.join('(%s, %s) (* %s *)' % (lit(k), lit(n), k) for k, n in pairs))
    out.append('(* InspectWrapper._process_chunk *)')
    out.append('Definition gen_shape : pc_shape :=\n  {| sh_skip_errored := %s; sh_reraise := %s; sh_add_errored := %s;\n     sh_else := [%s] |}.'
               % (b(shape['skip']), shape['reraise'], b(shape['add']), '; '.join(shape['else'])))
    out.append('(* InspectWrapper.formats: i.NAME != %r ; str(x) == %r *)' % (strs[0], strs[1]))
    out.append('Definition raw_lit_nonraw : str := %s.' % lit(strs[0]))
    out.append('Definition raw_lit_raw : str := %s.' % lit(strs[1]))
    out.append('(* detect_file_format: _chunked_reader(wrapper, %d) *)' % ints[0])
    out.append('Definition detect_chunk_size : Z := %d%%Z.' % ints[0])
    return '\n'.join(out) + '\n'

if __name__ == '__main__':
    import sys
    sys.stdout.write(generate())
