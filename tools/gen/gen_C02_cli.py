"""Gen/C02_Cli.v from oslo_utils/imageutils/cli.py — the body of `main` as a [list cstmt]
(coq/Model/C02_Cli.v), statement by statement.  Fail-closed: any statement, condition, call,
option or handler outside the recognised shapes raises GenError (-> committed baseline copy and
the tie rests on the correspondence with real runs of the command-line checker).

Recognised:
  set-up (produces no statement, but is checked): logging.basicConfig(...), NAME = str(version_info),
    parser = argparse.ArgumentParser(...), parser.add_argument(...) for exactly -v/--verbose (store_true)
    and -i/--image (store, required), args = parser.parse_args(), image = args.image, verbose = args.verbose
  body: if <not exists or not isfile> / if verbose / if safe / if not safe  (no else) with simple bodies;
    inspector = format_inspector.detect_file_format(image); safe = True|False;
    try: inspector.safety_check() except <class> [as e]: <simple body>; inspector.safety_check();
    virtual_size = inspector.virtual_size; other assignments of pure expressions; print(...); sys.exit(<int>)
"""
import ast
from common import *
import failclosed

SRC = 'oslo_utils/imageutils/cli.py'
# what this translator reads (tools/gen/failclosed.py): `main` must be the one plain definition, the module names it uses the real modules
FAILCLOSED = {'generate': [{'src': SRC, 'mod': 'oslo_utils.imageutils.cli',
                            'functions': {'main': {'defaults': {}}},
                            'imports': {'format_inspector': 'oslo_utils.imageutils.format_inspector', 'sys': 'sys', 'os': 'os',
                                        'argparse': 'argparse', 'textwrap': 'textwrap'}}]}
PURE_CALL = {'print', 'str', 'len', 'failure_reasons.append', 'exc[0]', 'e.failures.items', 'textwrap.dedent'}
CLASSES = {'format_inspector.SafetyCheckFailed': 'X_SafetyCheckFailed', 'format_inspector.ImageFormatError': 'X_ImageFormatError',
           'Exception': 'X_Exception', 'BaseException': 'X_Exception'}

def u(e):
    return ast.unparse(e)

def pure_expr(e, names):
    """no call other than formatting / printing helpers; no access to the inspector other than the names given"""
    for n in ast.walk(e):
        if isinstance(n, ast.Call):
            f = u(n.func)
            if f in PURE_CALL: continue
            if isinstance(n.func, ast.Attribute) and n.func.attr in ('join', 'format') and isinstance(n.func.value, ast.Constant) and isinstance(n.func.value.value, str):
                continue
            raise GenError('call %s in an expression assumed pure' % f)
        if isinstance(n, ast.Attribute) and isinstance(n.value, ast.Name) and n.value.id == 'inspector':
            if n.attr not in names:
                raise GenError('inspector.%s read in an expression assumed pure' % n.attr)
        if isinstance(n, (ast.Lambda, ast.Await, ast.Yield, ast.YieldFrom, ast.NamedExpr)):
            raise GenError('unsupported expression')
    return True

def simple(st, env):
    """-> csimple text"""
    if isinstance(st, ast.Expr) and isinstance(st.value, ast.Call):
        f = u(st.value.func)
        if f == 'sys.exit':
            a = st.value.args
            if len(a) != 1 or st.value.keywords or not (isinstance(a[0], ast.Constant) and type(a[0].value) is int):
                raise GenError('sys.exit argument: ' + u(st))
            return 'B_exit (%d)' % a[0].value
        if f in ('print', 'failure_reasons.append'):
            pure_expr(st.value, ())
            return 'B_pure'
        raise GenError('statement ' + u(st))
    if isinstance(st, ast.Assign) and len(st.targets) == 1 and isinstance(st.targets[0], ast.Name):
        t = st.targets[0].id
        if t == env['safe']:
            if isinstance(st.value, ast.Constant) and isinstance(st.value.value, bool):
                return 'B_set_safe %s' % ('true' if st.value.value else 'false')
            raise GenError('safe assigned a non-constant: ' + u(st))
        if t in (env['image'], env['verbose'], 'inspector', 'sys', 'format_inspector'):
            raise GenError('re-assignment of ' + t)
        pure_expr(st.value, ('actual_size',))
        return 'B_pure'
    if isinstance(st, ast.For) and not st.orelse and isinstance(st.target, ast.Name):
        pure_expr(st.iter, ())
        for b in st.body:
            if simple(b, env) != 'B_pure': raise GenError('loop body: ' + u(b))
        return 'B_pure'
    if isinstance(st, ast.Pass):
        return 'B_pure'
    raise GenError('statement ' + u(st)[:80])

def cond(e, env):
    t = u(e)
    im = env['image']
    if t in ('not os.path.exists(%s) or not os.path.isfile(%s)' % (im, im), 'not os.path.isfile(%s)' % im,
             'not (os.path.exists(%s) and os.path.isfile(%s))' % (im, im)):
        return 'C_badpath'
    if t == env['verbose']: return 'C_verbose'
    if t == env['safe']: return 'C_safe'
    if t == 'not ' + env['safe']: return 'C_not_safe'
    raise GenError('condition ' + t)

def setup(stmts):
    """check the argparse set-up; returns (number of statements consumed, env)"""
    env = {'safe': 'safe'}
    opts = []
    i = 0
    for i, st in enumerate(stmts):
        t = u(st)
        if isinstance(st, ast.If): break
        if isinstance(st, ast.Expr) and isinstance(st.value, ast.Call) and u(st.value.func) == 'logging.basicConfig':
            continue
        if isinstance(st, ast.Expr) and isinstance(st.value, ast.Call) and u(st.value.func) == 'parser.add_argument':
            c = st.value
            flags = tuple(a.value for a in c.args if isinstance(a, ast.Constant))
            if len(flags) != len(c.args): raise GenError('add_argument: ' + t[:80])
            kw = {k.arg: k.value for k in c.keywords}
            act = kw.get('action'); act = act.value if isinstance(act, ast.Constant) else None
            req = kw.get('required'); req = req.value if isinstance(req, ast.Constant) else False
            for k in kw:
                if k not in ('action', 'required', 'help', 'metavar'): raise GenError('add_argument keyword ' + k)
            opts.append((flags, act, req))
            continue
        if isinstance(st, ast.Assign) and len(st.targets) == 1 and isinstance(st.targets[0], ast.Name):
            tg, v = st.targets[0].id, u(st.value)
            if tg == 'parser' and isinstance(st.value, ast.Call) and u(st.value.func) == 'argparse.ArgumentParser':
                for k in st.value.keywords:
                    if k.arg not in ('prog', 'formatter_class', 'description', 'epilog'): raise GenError('ArgumentParser keyword %s' % k.arg)
                continue
            if tg == 'args' and v == 'parser.parse_args()': continue
            if v == 'args.image': env['image'] = tg; continue
            if v == 'args.verbose': env['verbose'] = tg; continue
            if v == 'str(version_info)': continue
        raise GenError('set-up statement ' + t[:80])
    if sorted(opts) != sorted([(('-v', '--verbose'), 'store_true', False), (('-i', '--image'), 'store', True)]):
        raise GenError('command-line options changed: %r' % (opts,))
    if 'image' not in env or 'verbose' not in env:
        raise GenError('image / verbose not bound from args')
    return i, env

def statements():
    tree = repo_ast(SRC)
    fn = find_def(tree, 'main')
    if fn.args.args or fn.args.vararg or fn.args.kwarg or fn.decorator_list: raise GenError('main signature')
    body = list(fn.body)
    if body and isinstance(body[0], ast.Expr) and isinstance(body[0].value, ast.Constant) and isinstance(body[0].value.value, str):
        body = body[1:]
    k, env = setup(body)
    out = []
    for st in body[k:]:
        if isinstance(st, ast.If):
            if st.orelse: raise GenError('if with else: ' + u(st.test))
            out.append('S_if %s [%s]' % (cond(st.test, env), '; '.join(simple(b, env) for b in st.body)))
        elif isinstance(st, ast.Try):
            if st.orelse or st.finalbody or len(st.handlers) != 1 or len(st.body) != 1 or u(st.body[0]) != 'inspector.safety_check()':
                raise GenError('try shape')
            h = st.handlers[0]
            if h.type is None: ks = ['X_Exception']
            elif isinstance(h.type, ast.Tuple): ks = [CLASSES.get(u(x)) for x in h.type.elts]
            else: ks = [CLASSES.get(u(h.type))]
            if None in ks: raise GenError('except class ' + u(h.type))
            out.append('S_try_safety [%s] [%s]' % ('; '.join(ks), '; '.join(simple(b, env) for b in h.body)))
        elif isinstance(st, ast.Expr) and u(st) == 'inspector.safety_check()':
            out.append('S_safety')
        elif isinstance(st, ast.Assign) and u(st.value) == 'format_inspector.detect_file_format(%s)' % env['image']:
            if u(st.targets[0]) != 'inspector' or len(st.targets) != 1: raise GenError('detection result bound to ' + u(st.targets[0]))
            out.append('S_detect')
        elif isinstance(st, ast.Assign) and u(st.value) == 'inspector.virtual_size':
            out.append('S_vsize')
        else:
            out.append('S_simple (%s)' % simple(st, env))
    return out

def generate():
    # the entry point `python -m oslo_utils.imageutils` must still be cli.main
    failclosed.check_all(FAILCLOSED['generate'])
    mt = repo_ast('oslo_utils/imageutils/__main__.py')
    if len(failclosed.bindings(mt.body, 'main')) != 1: raise GenError('__main__ binds `main` more than once')
    imp = [n for n in mt.body if isinstance(n, ast.ImportFrom)]
    if not any(n.module == 'oslo_utils.imageutils.cli' and any(a.name == 'main' and a.asname is None for a in n.names) for n in imp):
        raise GenError('__main__ does not import cli.main')
    calls = [n for n in ast.walk(mt) if isinstance(n, ast.Call)]
    if [u(c) for c in calls] != ['main()']:
        raise GenError('__main__ calls %r' % [u(c) for c in calls])
    sts = statements()
    o = [HEADER % (SRC, 'tools/gen/gen_C02_cli.py')]
    o.append('Require Import OV.Base.Bytes OV.Model.C02_Cli.\nOpen Scope Z_scope.\n')
    o.append('Definition cli_main : list cstmt := [\n  ' + ';\n  '.join(sts) + '\n].\n')
    return ''.join(o)

if __name__ == '__main__':
    print(generate())
