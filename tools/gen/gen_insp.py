"""Gen/Insp_Consts.v (+ Gen/Insp_Code.v) from oslo_utils/imageutils/format_inspector.py.

Everything the hand-written inspector model (coq/Model/Insp_*.v) needs as a VALUE comes
from here, regenerated on every run and fail-closed (GenError -> committed baseline copy):

  * ALL_FORMATS order / names                      -> fmt_id, all_formats, fmt_name
  * region names, safety-check names               -> rname, cname (+ *_str)
  * per inspector: initial regions and checks, read from a fresh instance
  * every class constant, the two GUIDs as their mixed-endian 16-byte encodings
  * magic byte strings / signature values
  * struct format strings (size + field layout), by (class, method, occurrence)
  * integer literals, by (class, method, position in source order): each literal is either
    exported under a name or must still have the value the model hard-wires (else GenError)
"""
import ast, struct, re, uuid
from common import *
import failclosed

SRC = 'oslo_utils/imageutils/format_inspector.py'

def _ordered(node, ty):
    ns = [n for n in ast.walk(node) if isinstance(n, ast.Constant) and isinstance(n.value, ty) and not isinstance(n.value, bool)]
    ns.sort(key=lambda n: (n.lineno, n.col_offset))
    return ns

# (class, method) -> list in SOURCE ORDER of: 'NAME' (exported as N) | int (value the model relies on)
LITS = {
    ('QcowInspector', '_initialize'): [0, 512],
    ('QcowInspector', 'region_complete'): ['QCOW_HDR_SLICE'],
    ('QcowInspector', 'virtual_size'): [0],
    ('QcowInspector', 'check_backing_file'): [0],
    # ver == 2, ver != 3, MAX_BIT // 8, (1 << (MAX_BIT % 8)) - 1, 0x0, 0xFF
    ('QcowInspector', 'check_unknown_features'): ['QCOW_VER_A', 'QCOW_VER_B', 8, 1, 8, 1, 'QCOW_MASK_ABOVE', 'QCOW_MASK_BELOW'],
    ('QcowInspector', 'check_data_file'): [1, 8, 1, 1, 8],
    ('QEDInspector', '_initialize'): [0, 512],
    ('VHDInspector', '_initialize'): [0, 512],
    ('VHDInspector', 'virtual_size'): [0, 0, 'VHD_SIZE_LO', 'VHD_SIZE_HI', 0],
    ('VHDXInspector', '_initialize'): [0, 32, 192, 1024, 64, 1024],
    ('VHDXInspector', '_find_meta_region'): ['VHDX_RT_FIRST', 'VHDX_RT_HDR', 'VHDX_REGI', 'VHDX_RT_LIMIT', 0, 0, 'VHDX_RT_STRIDE',
                                             'VHDX_RT_ENTRY', 'VHDX_RT_GUID', 'VHDX_RT_REST', 'VHDX_META_A', 'VHDX_META_B'],
    ('VHDXInspector', '_find_meta_entry'): ['VHDX_MT_MIN', 'VHDX_MT_HDR', 'VHDX_MT_BASE', 'VHDX_MT_STRIDE', 'VHDX_MT_LIMIT', 0,
                                            'VHDX_MT_BASE2', 'VHDX_MT_STRIDE2', 'VHDX_MT_GUID', 'VHDX_MT_F_LO', 'VHDX_MT_F_HI'],
    ('VHDXInspector', 'virtual_size'): [0],
    ('VMDKInspector', '_initialize'): [0, 512, 0, 4],
    ('VMDKInspector', '_parse_sparse_header'): [0],
    ('VMDKInspector', 'post_process'): ['VMDK_VER_A', 'VMDK_VER_B', 'VMDK_VER_C', 'VMDK_FOOTER_LEN', 'VMDK_SECTOR_A', 'VMDK_SECTOR_B', 0],
    ('VMDKInspector', '_parse_descriptor'): ['VMDK_TYPE_CAP'],
    ('VMDKInspector', 'virtual_size'): [0, 0, 0, 'VMDK_VS_SLICE', 'VMDK_VS_SECTOR'],
    ('VMDKInspector', 'check_descriptor'): [0, 0],
    ('VMDKInspector', 'check_footer'): ['VMDK_FT_HDR_OFF', 'VMDK_FT_PAD', 'VMDK_FT_FIRST', 0, 'VMDK_FT_LAST', 0, 0],
    ('VDIInspector', '_initialize'): [0, 512],
    ('VDIInspector', 'format_match'): ['VDI_SIG_LO', 'VDI_SIG_HI', 'VDI_SIG'],
    ('VDIInspector', 'virtual_size'): [0, 0, 'VDI_SIZE_LO', 'VDI_SIZE_HI'],
    ('ISOInspector', '_initialize'): [0, 32, 32, 2],
    ('ISOInspector', 'format_match'): ['ISO_SIG_LO', 'ISO_SIG_HI'],
    ('ISOInspector', 'virtual_size'): [0, 0, 'ISO_TYPE_IDX', 'ISO_TYPE_PVD', 0, 'ISO_LBS_LO', 'ISO_LBS_HI', 'ISO_LBS_TAKE',
                                       'ISO_VSS_LO', 'ISO_VSS_HI', 'ISO_VSS_TAKE'],
    ('GPTInspector', '_initialize'): [0, 512],
    ('GPTInspector', '_check_for_fat'): ['GPT_FAT_NUM_IDX', 'GPT_FAT_MEDIA_IDX', 'GPT_FAT_NUM'],
    ('GPTInspector', 'format_match'): ['GPT_SIG_LO', 'GPT_SIG_HI'],
    ('GPTInspector', 'check_mbr_partitions'): ['GPT_PTE_COUNT', 'GPT_PTE_STRIDE', 'GPT_PTE_LEN', 'GPT_BOOT_A', 'GPT_BOOT_B', 0, 'GPT_OSTYPE_GPT',
                                               'GPT_CHS_H', 'GPT_CHS_S', 'GPT_CHS_T', 'GPT_START_LBA', 0],
    ('LUKSInspector', '_initialize'): [0, 592],
    ('LUKSInspector', 'format_match'): ['LUKS_MAGIC_TAKE'],
    ('LUKSInspector', 'header_items'): ['LUKS_HDR_SLICE'],
    ('LUKSInspector', 'check_version'): ['LUKS_VERSION'],
    ('LUKSInspector', 'virtual_size'): ['LUKS_SECTOR'],
}

# (class, method) -> names for the struct format strings in source order
STRUCTS = {
    ('QcowInspector', 'region_complete'): ['sf_qcow_hdr'],
    ('QcowInspector', 'check_backing_file'): ['sf_qcow_bf'],
    ('VHDInspector', 'virtual_size'): ['sf_vhd_size'],
    ('VHDXInspector', '_guid'): ['sf_vhdx_guid'],
    ('VHDXInspector', '_find_meta_region'): ['sf_vhdx_rt_hdr', 'sf_vhdx_rt_rest'],
    ('VHDXInspector', '_find_meta_entry'): ['sf_vhdx_mt_hdr', 'sf_vhdx_mt_item'],
    ('VHDXInspector', 'virtual_size'): ['sf_vhdx_vds'],
    ('VMDKInspector', '_parse_sparse_header'): ['sf_vmdk_sparse'],
    ('VMDKInspector', 'virtual_size'): ['sf_vmdk_vs'],
    ('VMDKInspector', 'check_footer'): ['sf_vmdk_marker', 'sf_vmdk_marker2'],
    ('VDIInspector', 'format_match'): ['sf_vdi_sig'],
    ('VDIInspector', 'virtual_size'): ['sf_vdi_size'],
    ('ISOInspector', 'virtual_size'): ['sf_iso_lbs', 'sf_iso_vss'],
    ('GPTInspector', 'format_match'): ['sf_gpt_sig'],
    ('GPTInspector', 'check_mbr_partitions'): ['sf_gpt_pte'],
    ('LUKSInspector', 'header_items'): ['sf_luks_hdr'],
}

# (class, method) -> names for the bytes literals in source order
BYTES = {
    ('QcowInspector', 'format_match'): ['QCOW_MAGIC'],
    ('QEDInspector', 'format_match'): ['QED_MAGIC'],
    ('VHDInspector', 'format_match'): ['VHD_MAGIC'],
    ('VHDXInspector', 'format_match'): ['VHDX_MAGIC'],
    ('VHDXInspector', '_find_meta_entry'): ['VHDX_META_SIG'],
    ('VMDKInspector', 'post_process'): ['VMDK_MAGIC_PP'],
    ('VMDKInspector', '_parse_descriptor'): ['VMDK_NUL'],
    ('VMDKInspector', 'format_match'): ['VMDK_MAGIC'],
    ('VMDKInspector', 'check_footer'): ['VMDK_PAD_BYTE'],
    ('ISOInspector', 'format_match'): ['ISO_SIG_A', 'ISO_SIG_B', 'ISO_SIG_C'],
    ('LUKSInspector', 'format_match'): ['LUKS_MAGIC'],
}

# str literals that are data (not messages), by (class, method): {name: (occurrence-matcher)}
STRS = {
    ('VMDKInspector', '_initialize'): {'VMDK_NOTFOUND': 'formatnotfound'},
    ('VMDKInspector', '_parse_descriptor'): {'VMDK_CREATETYPE': 'createtype="', 'VMDK_QUOTE': '"'},
}

CLASS_CONSTS = {
    'QcowInspector': ['BF_OFFSET', 'BF_OFFSET_LEN', 'I_FEATURES', 'I_FEATURES_LEN', 'I_FEATURES_DATAFILE_BIT', 'I_FEATURES_MAX_BIT'],
    'VHDXInspector': ['VHDX_METADATA_TABLE_MAX_SIZE'],
    'VMDKInspector': ['DESC_OFFSET', 'DESC_MAX_SIZE', 'GD_AT_END', 'MIN_SPARSE_HEADER', 'MARKER_EOS', 'MARKER_FOOTER'],
    'GPTInspector': ['MBR_SIGNATURE', 'MBR_PTE_START', 'MEDIA_TYPE_FDISK'],
}
PREFIX = {'QcowInspector': 'QCOW', 'VHDXInspector': 'VHDX', 'VMDKInspector': 'VMDK', 'GPTInspector': 'GPT'}

# ------------------------------------------------------------------ fail-closed tables (tools/gen/failclosed.py)
# Every inspector class must be the one direct FileInspector subclass bound to its name, define exactly these methods (an override of
# an engine method - eat_chunk, _capture, finish, complete, safety_check, ... - is unmodelled behaviour), each with exactly these
# decorators; the second component is the statement skeleton the hand-written model (Model/Insp_*.v) was transcribed from, checked
# by generate_code so that a change of shape does not cost the regenerated constants of generate().
INSPECTOR_METHODS = {
    'RawFileInspector': {
        '_initialize': ([], 'a6cbc4a349820104'), 'format_match': (['property'], '698242c1c40b3535')},
    'QcowInspector': {
        '_initialize': ([], '1b383174bb8dc61f'), 'region_complete': ([], '9f08deb78c2e078b'),
        'virtual_size': (['property'], '5efee4fc17b985e0'), 'format_match': (['property'], '8441d70a914078f7'),
        'check_backing_file': ([], '5138acea308abd34'), 'check_unknown_features': ([], '2680008957f2617a'),
        'check_data_file': ([], '733b8aeb1ae05c81')},
    'QEDInspector': {
        '_initialize': ([], '98220601bd00dacd'), 'format_match': (['property'], '4ba046f780cb0c77')},
    'VHDInspector': {
        '_initialize': ([], '80f0fb4db2a8c41d'), 'format_match': (['property'], '9abf7ba753a7efdf'),
        'virtual_size': (['property'], 'fdc6e6d9a05f214d')},
    'VHDXInspector': {
        '_initialize': ([], '0c68e8c5d3e67d18'), 'post_process': ([], '22fb53c168187e96'),
        'format_match': (['property'], '9abf7ba753a7efdf'), '_guid': (['staticmethod'], 'a0b28b93fd190586'),
        '_find_meta_region': ([], 'd7a183400c64db06'), '_find_meta_entry': ([], 'fa1aced254c24e50'),
        'virtual_size': (['property'], 'f3c9c127907c2c28')},
    'VMDKInspector': {
        '_initialize': ([], 'e5ad36333d261cd1'), '_parse_sparse_header': ([], '8d54632b6479ae19'),
        'post_process': ([], '5f97b0c85da3ebaa'), 'region_complete': ([], 'a98dece2fa424b5a'),
        '_parse_descriptor': ([], '2d2c26e59ba166d6'), 'format_match': (['property'], 'b24ed93a00671af6'),
        'virtual_size': (['property'], '16f9eeacad81dcfc'), 'check_descriptor': ([], 'c7a34dc4b3681103'),
        'check_footer': ([], '6bd82cab7a1bdac0')},
    'VDIInspector': {
        '_initialize': ([], '80f0fb4db2a8c41d'), 'format_match': (['property'], '52e386f6797f24e9'),
        'virtual_size': (['property'], '2f3709541c421fb2')},
    'ISOInspector': {
        '_initialize': ([], '38f7cc1f6c787a40'), 'format_match': (['property'], 'e8c79a3fe498b678'),
        'virtual_size': (['property'], 'b538cd68706f3514')},
    'GPTInspector': {
        '_initialize': ([], 'eded039444b8fd85'), '_check_for_fat': ([], 'cf9aed064d2c4a32'),
        'format_match': (['property'], '706f9867c38cc426'), 'check_mbr_partitions': ([], '4e233535873e523c')},
    'LUKSInspector': {
        '_initialize': ([], '8d856e9cde8e43c8'), 'format_match': (['property'], '3c0af7d84076db97'),
        'header_items': (['property'], 'b9e628f84e6872ba'), 'check_version': ([], '419abe30a3fbc7ce'),
        'virtual_size': (['property'], '312893357603e819')},
}
# The engine the model transcribes: class -> (bases, {method: (decorators, defaults, skeleton, non-string constants)})
_A = failclosed.ANY
ENGINE = {
    'CaptureRegion': ([], {
        '__init__': ([], {'min_length': 'None'}, '5cc3ea741b77b4d2', [None, b'']),
        'complete': (['property'], {}, '8e6683539cae7f02', [None]),
        'capture': ([], {}, 'ce6a6e171cb4656a', []),
    }),
    'EndCaptureRegion': (['CaptureRegion'], {
        '__init__': ([], {}, '76fede27cae2ac3b', [False]),
        'capture': ([], {}, 'da290446bf6ad820', [0]),
        'complete': (['property'], {}, '4d73b81e3e12b6f8', []),
        'finish': ([], {}, '708feb17efefd3f8', [True]),
    }),
    'SafetyCheck': ([], {
        '__init__': ([], {'description': 'None'}, '2463daceb4d534ef', [None]),
        '__call__': ([], {}, 'bd98d5c850537186', [_A, _A]),
        'null': (['classmethod'], {}, '348922ee3040566d', [_A, None, _A]),
        'banned': (['classmethod'], {}, 'b46dca1b3eecea31', [_A, _A, _A]),
    }),
    'SafetyCheckFailed': (['Exception'], {
        '__init__': ([], {}, 'c2e113e4647d6b71', [_A, _A]),
    }),
    'FileInspector': (['abc.ABC'], {
        '__init__': ([], {'tracing': 'False'}, '428e800ec93c0a92', [False, 0, False, _A]),
        '_trace': ([], {}, 'e48d4e39622108dd', []),
        '_initialize': (['abc.abstractmethod'], {}, '39a7592ea4d65212', []),
        'finish': ([], {}, '163e87f09f73eae9', [True]),
        '_capture': ([], {'only': 'None'}, '04fde0325eda829a', [None, _A]),
        'eat_chunk': ([], {}, '83d6f5c41eb72c2a', []),
        'post_process': ([], {}, 'fa4d977ecfa67085', []),
        'region': ([], {}, '82788b5b4078c5fb', []),
        'region_name': ([], {}, '7b27cd0fb85a3a92', [_A]),
        'new_region': ([], {}, '76a05d30b2fc36a3', [_A]),
        'has_region': ([], {}, '94aa1cdbc2b94b42', []),
        'delete_region': ([], {}, '79c43e2e60cb28c5', []),
        'region_complete': ([], {}, '59d58eaa6063c3ab', []),
        'add_safety_check': ([], {}, 'e5a381d6edaf9c0b', [_A, _A]),
        'format_match': (['property', 'abc.abstractmethod'], {}, 'b7eb781ae097a878', []),
        'virtual_size': (['property'], {}, '41123da5766c809b', []),
        'actual_size': (['property'], {}, 'bf25d4eec560f554', []),
        'complete': (['property'], {}, 'e80e076548e40012', []),
        '__str__': ([], {}, '08f40b2fdd063b1b', []),
        'context_info': (['property'], {}, 'b63d1494311c70f0', []),
        'from_file': (['classmethod'], {}, '4d1c03d02735b565', [_A, _A]),
        'safety_check': ([], {}, '3a49a4f35a0f313c', [_A, _A, None, _A, _A]),
    }),
}
_MOD = 'oslo_utils.imageutils.format_inspector'
FAILCLOSED = {
    'generate': [{'src': SRC, 'mod': _MOD,
                  'classes': {c: {'bases': ['FileInspector'], 'methods': list(ms)} for c, ms in INSPECTOR_METHODS.items()},
                  'functions': {c + '.' + m: {'decorators': d} for c, ms in INSPECTOR_METHODS.items() for m, (d, _) in ms.items()},
                  'constants': ['ALL_FORMATS'], 'imports': {'struct': 'struct'}}],
    'generate_code': [{'src': SRC, 'mod': _MOD,
                       'classes': dict([(c, {'bases': b, 'methods': list(ms)}) for c, (b, ms) in ENGINE.items()] +
                                       [(c, {'bases': ['FileInspector'], 'methods': list(ms)}) for c, ms in INSPECTOR_METHODS.items()]),
                       'functions': {c + '.' + m: {'decorators': d, 'defaults': df} for c, (_, ms) in ENGINE.items() for m, (d, df, _, _) in ms.items()},
                       'shapes': dict([(c + '.' + m, (s, cs)) for c, (_, ms) in ENGINE.items() for m, (_, _, s, cs) in ms.items()] +
                                      [(c + '.' + m, (s, None)) for c, ms in INSPECTOR_METHODS.items() for m, (_, s) in ms.items()]),
                       'imports': {'struct': 'struct', 'abc': 'abc'}}]}

def _ident(s):
    if not re.fullmatch(r'[A-Za-z_][A-Za-z0-9_]*', s): raise GenError('name %r is not an identifier' % s)
    return s

def parse_struct(fmt):
    """-> (big, size, [(offset, length)])  for the standard-size byte orders < >"""
    if fmt[0] not in '<>': raise GenError('struct format %r: byte order' % fmt)
    big = fmt[0] == '>'
    fields = []; off = 0
    for m in re.finditer(r'(\d*)([a-zA-Z])', fmt[1:]):
        cnt = int(m.group(1)) if m.group(1) else 1
        code = m.group(2)
        if code == 's':
            fields.append((off, cnt)); off += cnt
        else:
            sz = {'B': 1, 'b': 1, 'H': 2, 'h': 2, 'I': 4, 'i': 4, 'L': 4, 'l': 4, 'Q': 8, 'q': 8}.get(code)
            if sz is None: raise GenError('struct format %r: code %s' % (fmt, code))
            for _ in range(cnt):
                fields.append((off, sz)); off += sz
    if ''.join(m.group(0) for m in re.finditer(r'(\d*)([a-zA-Z])', fmt[1:])) != fmt[1:]: raise GenError('struct format %r' % fmt)
    if off != struct.calcsize(fmt): raise GenError('struct format %r: size' % fmt)
    return big, off, fields

def coq_n(v):
    if not isinstance(v, int) or v < 0: raise GenError('not a natural number: %r' % (v,))
    return '%d%%N' % v

def _class(tree, name):
    for n in tree.body:
        if isinstance(n, ast.ClassDef) and n.name == name: return n
    raise GenError('class %s not found' % name)

def _methods(cls):
    return {f.name: f for f in cls.body if isinstance(f, ast.FunctionDef)}

def generate():
    failclosed.check_all(FAILCLOSED['generate'])
    m = repo_import('oslo_utils.imageutils.format_inspector')
    tree = repo_ast(SRC)
    for k, cls in m.ALL_FORMATS.items():
        if vars(m).get(getattr(cls, '__name__', None)) is not cls or cls.__name__ not in INSPECTOR_METHODS:
            raise GenError('ALL_FORMATS[%r] is not one of the module-level inspector classes the model knows' % (k,))
    out = [HEADER % (SRC, 'tools/gen/gen_insp.py')]
    out.append('Require Import OV.Base.Bytes OV.Base.Insp_Struct.')
    out.append('Open Scope N_scope.')

    # ---- formats
    names = list(m.ALL_FORMATS.keys())
    for k, cls in m.ALL_FORMATS.items():
        if cls.NAME != k: raise GenError('ALL_FORMATS key %r != NAME %r' % (k, cls.NAME))
    if len(set(names)) != len(names): raise GenError('duplicate format')
    out.append('Inductive fmt_id := %s.' % ' | '.join('F_' + _ident(n) for n in names))
    out.append('Definition all_formats : list fmt_id := [%s].' % '; '.join('F_' + n for n in names))
    out.append('Definition fmt_name (f : fmt_id) : str := match f with %s end.' % ' | '.join('F_%s => %s' % (n, lit(n)) for n in names))

    # ---- instances: regions and checks
    rnames, cnames = [], []
    inst = {}
    for n, cls in m.ALL_FORMATS.items():
        i = cls()
        regs = []
        for rn, r in i._capture_regions.items():
            if type(r) is m.CaptureRegion: kind = 'false'
            elif type(r) is m.EndCaptureRegion: kind = 'true'
            else: raise GenError('region class %s' % type(r).__name__)
            if r.data != b'': raise GenError('initial region with data')
            regs.append((rn, kind, r.offset, r.length, r.min_length))
            if rn not in rnames: rnames.append(rn)
        cks = list(i._safety_checks.keys())
        for c in cks:
            if c not in cnames: cnames.append(c)
        if i._total_count != 0 or i._finished: raise GenError('initial state')
        inst[n] = (regs, cks)
    # names used dynamically (new_region / SafetyCheck(...) with literal first argument anywhere in the classes)
    for node in ast.walk(tree):
        if isinstance(node, ast.Call) and isinstance(node.func, ast.Attribute) and node.func.attr == 'new_region':
            a = node.args[0]
            if not (isinstance(a, ast.Constant) and isinstance(a.value, str)): raise GenError('new_region with a computed name')
            if a.value not in rnames: rnames.append(a.value)
        if isinstance(node, ast.Call) and isinstance(node.func, ast.Name) and node.func.id == 'SafetyCheck':
            a = node.args[0]
            if not (isinstance(a, ast.Constant) and isinstance(a.value, str)): raise GenError('SafetyCheck with a computed name')
            if a.value not in cnames: cnames.append(a.value)
    out.append('Inductive rname := %s.' % ' | '.join('R_' + _ident(r) for r in rnames))
    out.append('Scheme Equality for rname.')
    out.append('Definition rname_str (r : rname) : str := match r with %s end.' % ' | '.join('R_%s => %s' % (r, lit(r)) for r in rnames))
    out.append('Inductive cname := %s.' % ' | '.join('K_' + _ident(c) for c in cnames))
    out.append('Scheme Equality for cname.')
    out.append('Definition cname_str (c : cname) : str := match c with %s end.' % ' | '.join('K_%s => %s' % (c, lit(c)) for c in cnames))
    def rspec(r):
        rn, kind, off, ln, mn = r
        return '(R_%s, mkRspec %s %s %s %s)' % (rn, kind, coq_n(off), coq_n(ln), 'None' if mn is None else '(Some %s)' % coq_n(mn))
    out.append('Definition init_regions (f : fmt_id) : list (rname * rspec) := match f with\n%s end.' %
               '\n'.join('  | F_%s => [%s]' % (n, '; '.join(rspec(r) for r in inst[n][0])) for n in names))
    out.append('Definition init_checks (f : fmt_id) : list cname := match f with\n%s end.' %
               '\n'.join('  | F_%s => [%s]' % (n, '; '.join('K_' + c for c in inst[n][1])) for n in names))

    # ---- class constants
    for cn, consts in CLASS_CONSTS.items():
        cls = getattr(m, cn)
        for c in consts:
            out.append('Definition %s_%s : N := %s.' % (PREFIX[cn], c, coq_n(getattr(cls, c))))
    # every upper-case int class attribute must be known (a new constant = unmodelled behaviour)
    for cn in ('QcowInspector', 'QEDInspector', 'VHDInspector', 'VHDXInspector', 'VMDKInspector', 'VDIInspector', 'ISOInspector',
               'GPTInspector', 'LUKSInspector', 'RawFileInspector'):
        cls = getattr(m, cn)
        for k, v in vars(cls).items():
            if k.isupper() and k != 'NAME' and isinstance(v, int) and k not in CLASS_CONSTS.get(cn, []):
                raise GenError('unknown class constant %s.%s' % (cn, k))
    # GUIDs: the comparison `_guid(buf) == CONST` holds iff buf is the mixed-endian encoding of CONST,
    # provided CONST is exactly what _guid prints for that encoding (checked here).
    for gname in ('METAREGION', 'VIRTUAL_DISK_SIZE'):
        g = getattr(m.VHDXInspector, gname)
        try: enc = uuid.UUID(g).bytes_le
        except Exception: raise GenError('GUID %s does not parse' % gname)
        if m.VHDXInspector._guid(enc) != g: raise GenError('GUID %s is not in the canonical form _guid prints' % gname)
        out.append('Definition VHDX_GUID_%s : bytes := %s.' % (gname, lit(enc)))
    # post_process must pass VIRTUAL_DISK_SIZE to _find_meta_entry and compare against METAREGION
    vx = _methods(_class(tree, 'VHDXInspector'))
    if 'self._find_meta_entry(self.VIRTUAL_DISK_SIZE)' not in ast.unparse(vx['post_process']): raise GenError('vhdx post_process guid')
    if 'guid == self.METAREGION' not in ast.unparse(vx['_find_meta_region']): raise GenError('vhdx _find_meta_region guid')

    # ---- literals, struct formats, bytes
    classes = {c.name: _methods(c) for c in tree.body if isinstance(c, ast.ClassDef)}
    inspector_classes = [c for c in classes if c.endswith('Inspector') and c not in ('FileInspector',)]
    seen = set()
    for cn in inspector_classes:
        for mn, f in classes[cn].items():
            ints = [n.value for n in _ordered(f, int)]
            key = (cn, mn)
            if ints or key in LITS:
                want = LITS.get(key)
                if want is None: raise GenError('integer literals in unmodelled method %s.%s: %r' % (cn, mn, ints))
                if len(want) != len(ints): raise GenError('%s.%s: literal list changed shape: %r' % (cn, mn, ints))
                for w, v in zip(want, ints):
                    if isinstance(w, str): out.append('Definition %s : N := %s.' % (w, coq_n(v)))
                    elif w != v: raise GenError('%s.%s: literal %r is now %r (the model hard-wires it)' % (cn, mn, w, v))
            # struct formats
            fmts = []
            calls = [n for n in ast.walk(f) if isinstance(n, ast.Call) and ast.unparse(n.func) == 'struct.unpack']
            calls.sort(key=lambda n: (n.lineno, n.col_offset))
            for c in calls:
                a = c.args[0]
                if isinstance(a, ast.Constant) and isinstance(a.value, str): fmts.append(a.value)
                elif isinstance(a, ast.Name):
                    # a local bound to a literal in the same function
                    vals = [n.value.value for n in ast.walk(f) if isinstance(n, ast.Assign) and len(n.targets) == 1 and
                            isinstance(n.targets[0], ast.Name) and n.targets[0].id == a.id and isinstance(n.value, ast.Constant)]
                    if len(vals) != 1: raise GenError('%s.%s: struct format variable' % (cn, mn))
                    fmts.append(vals[0])
                else: raise GenError('%s.%s: computed struct format' % (cn, mn))
            if fmts or key in STRUCTS:
                want = STRUCTS.get(key)
                if want is None or len(want) != len(fmts): raise GenError('%s.%s: struct.unpack calls changed: %r' % (cn, mn, fmts))
                for w, fm in zip(want, fmts):
                    big, size, fields = parse_struct(fm)
                    out.append('Definition %s : sfmt := mkSfmt %s %s [%s].  (* %s *)' % (
                        w, 'true' if big else 'false', coq_n(size), '; '.join('(%s, %s)' % (coq_n(o), coq_n(l)) for o, l in fields), fm))
            bs = [n.value for n in _ordered(f, bytes)]
            if bs or key in BYTES:
                want = BYTES.get(key)
                if want is None or len(want) != len(bs): raise GenError('%s.%s: bytes literals changed: %r' % (cn, mn, bs))
                for w, v in zip(want, bs):
                    out.append('Definition %s : bytes := %s.' % (w, lit(v)))
            if key in STRS:
                ss = [n.value for n in _ordered(f, str)]
                for w, v in STRS[key].items():
                    if v not in ss: raise GenError('%s.%s: string %r not found' % (cn, mn, v))
                    out.append('Definition %s : str := %s.' % (w, lit(v)))
            seen.add(key)
    for key in list(LITS) + list(STRUCTS) + list(BYTES):
        if key not in seen: raise GenError('method %s.%s not found' % key)

    # ---- string tuples: vmdk sub-formats, extent access modes
    vm = classes['VMDKInspector']
    def tuple_of_strs(f, first):
        for n in ast.walk(f):
            if isinstance(n, ast.Tuple) and n.elts and all(isinstance(e, ast.Constant) and isinstance(e.value, str) for e in n.elts) \
                    and n.elts[0].value == first:
                return [e.value for e in n.elts]
        raise GenError('tuple starting with %r not found' % first)
    t1 = tuple_of_strs(vm['virtual_size'], 'monolithicsparse'); t2 = tuple_of_strs(vm['check_descriptor'], 'monolithicsparse')
    if t1 != t2: raise GenError('vmdk sub-format tuples differ')
    out.append('Definition VMDK_SUBFORMATS : list str := [%s].' % '; '.join(lit(s) for s in t1))
    out.append('Definition VMDK_EXTENT_ACCESS : list str := [%s].' % '; '.join(lit(s) for s in tuple_of_strs(vm['check_descriptor'], 'rw')))
    # check_descriptor single-character tests
    cd = [n.value for n in _ordered(vm['check_descriptor'], str)]
    for name, val in (('VMDK_CH_NL', '\n'), ('VMDK_CH_HASH', '#'), ('VMDK_CH_EQ', '='), ('VMDK_CH_SP', ' '), ('VMDK_CH_SLASH', '/')):
        if val not in cd: raise GenError('check_descriptor: %r not found' % val)
        out.append('Definition %s : N := %d.' % (name, ord(val)))
    if 'ddb' not in cd: raise GenError('check_descriptor: ddb')
    out.append('Definition VMDK_DDB : str := %s.' % lit('ddb'))
    for mn in ('_parse_descriptor', 'format_match'):
        if 'formatnotfound' not in [n.value for n in _ordered(vm[mn], str)]: raise GenError('vmdk %s: formatnotfound' % mn)
    if [n.value for n in _ordered(vm['_parse_descriptor'], str)].count('ascii') != 1 or \
       [n.value for n in _ordered(vm['post_process'], str)].count('ascii') != 1: raise GenError('vmdk: codec')
    # code points < 128 for which isprintable() or isspace() (CPython's tables)
    def ranges(pred):
        rs = []
        for c in range(128):
            if pred(chr(c)):
                if rs and rs[-1][1] == c - 1: rs[-1][1] = c
                else: rs.append([c, c])
        return '[%s]' % '; '.join('(%d, %d)' % (a, b) for a, b in rs)
    out.append('Definition ASCII_TEXT_RANGES : list (N * N) := %s.' % ranges(lambda ch: ch.isprintable() or ch.isspace()))
    out.append('Definition ASCII_SPACE_RANGES : list (N * N) := %s.' % ranges(lambda ch: ch.isspace()))
    out.append('Definition ASCII_PRINT_RANGES : list (N * N) := %s.' % ranges(lambda ch: ch.isprintable()))
    # EndCaptureRegion / CaptureRegion constructor defaults
    cr = m.CaptureRegion(7, 9)
    if (cr.offset, cr.length, cr.data, cr.min_length) != (7, 9, b'', None): raise GenError('CaptureRegion.__init__')
    er = m.EndCaptureRegion(11)
    if (er.offset, er.length, er.data, er.min_length, er._complete) != (11, 11, b'', None, False): raise GenError('EndCaptureRegion.__init__')
    return '\n'.join(out) + '\n'

# ------------------------------------------------------------------ statement-level translations
def generate_code():
    import py2gal
    from py2gal import Fn
    failclosed.check_all(FAILCLOSED['generate_code'])
    tree = repo_ast(SRC)
    parts = [HEADER % (SRC, 'tools/gen/gen_insp.py (py2gal)'),
             'Require Import OV.Base.Bytes OV.Base.Py.\nOpen Scope Z_scope.\n']
    try:
        # CaptureRegion.capture: fields offset/length/data -> returns the new field tuple
        parts.append(py2gal.translate_function(
            py2gal.get_fndef(tree, 'capture', 'CaptureRegion'), 'gen_capture',
            [('chunk', 'bytes'), ('current_position', 'int')],
            fields={'offset': 'int', 'length': 'int', 'data': 'bytes'}))
        parts.append(py2gal.translate_function(
            py2gal.get_fndef(tree, 'complete', 'CaptureRegion'), 'gen_complete', [],
            fields={'length': 'int', 'data': 'bytes', 'min_length': 'optint'}))
        parts.append(py2gal.translate_function(
            py2gal.get_fndef(tree, 'capture', 'EndCaptureRegion'), 'gen_end_capture',
            [('chunk', 'bytes'), ('current_position', 'int')],
            fields={'offset': 'int', 'length': 'int', 'data': 'bytes'}))
    except py2gal.Unsupported as e:
        raise GenError('py2gal: ' + str(e))
    return ''.join(parts)

if __name__ == '__main__':
    import sys
    sys.stdout.write(generate()); sys.stdout.write(generate_code())
