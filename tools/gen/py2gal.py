"""py2gal — fail-closed, statement-level translator from a restricted Python subset
to (shallow) Gallina.  One Python function/method becomes one Coq Definition whose
structure follows the source statement by statement (let-chains, if/else with the
continuation duplicated into both branches, early return, raise, try/except around
a single raising call, `while` as a fuelled Fixpoint).

Types (given for parameters and fields by the caller, inferred for locals):
  'int'  -> Z          'bool' -> bool        'bytes'/'str' -> list N (bytes)
  'none' -> unit       'optint' -> option Z  ('x is None' tests)
A function that can `raise` returns `res T` (Base/Py.v), otherwise T.

State (self.attr) is threaded functionally: the caller lists FIELDS (name -> type);
a method returns (self', value) when it assigns a field, else just the value.

Anything outside the subset raises Unsupported: the caller then falls back to the
committed baseline copy (see tools/runner.py) — the translator never guesses.
"""
import ast, textwrap, inspect

class Unsupported(Exception):
    pass

COQ_TY = {'strlist': 'list bytes', 'int': 'Z', 'bool': 'bool', 'bytes': 'bytes', 'str': 'bytes', 'none': 'unit', 'optint': 'option Z', 'float': 'Z'}

CMP = {ast.Lt: '<?', ast.LtE: '<=?', ast.Eq: '=?', ast.Gt: '>?', ast.GtE: '>=?'}

class Fn:
    """description of a callable the translated code may call:
       coq: Coq function name; args: list of types; ret: type; raises: bool (returns res)"""
    def __init__(self, coq, args, ret, raises=False):
        self.coq, self.args, self.ret, self.raises = coq, args, ret, raises

class Translator:
    def __init__(self, params, fields=None, funcs=None, consts=None, self_name='self', ret_type=None, exn_names=None, hints=None):
        self.types = dict(params)            # local name -> type
        self.hints = dict(hints or {})       # declared types of locals that start as [] / None
        self.fields = dict(fields or {})     # self.attr -> type
        self.funcs = dict(funcs or {})       # python callee text (e.g. 'int', 'now', 'self._delta') -> Fn
        self.consts = dict(consts or {})     # python expression text (e.g. 'self.STARTED') -> (coq, type)
        self.self_name = self_name
        self.ret_type = ret_type             # declared return type (None = infer from first return)
        self.raises = False
        self.assigned_fields = set()
        self.exn_names = exn_names or {'RuntimeError', 'ValueError', 'TypeError', 'KeyError', 'IndexError',
                                        'ImageFormatError', 'SafetyViolation', 'AttributeError', 'OverflowError'}
        self.aux = []                        # auxiliary Fixpoints (loops)
        self.loop_id = 0
        self.name = 'f'

    # ------------------------------------------------------------ expressions
    def src(self, e):
        return ast.unparse(e)

    def expr(self, e):
        """returns (coq_text, type).  Only pure (non-raising) expressions."""
        t = self.src(e)
        if t in self.consts:
            return self.consts[t]
        if isinstance(e, ast.Constant):
            v = e.value
            if isinstance(v, bool): return ('true' if v else 'false'), 'bool'
            if isinstance(v, int): return '(%d)' % v, 'int'
            if v is None: return 'tt', 'none'
            if isinstance(v, (str, bytes)):
                cs = [ord(c) for c in v] if isinstance(v, str) else list(v)
                return '([%s]%%N : bytes)' % ';'.join(map(str, cs)), 'bytes'
            raise Unsupported('constant %r' % (v,))
        if isinstance(e, ast.Name):
            if e.id not in self.types: raise Unsupported('unknown name ' + e.id)
            return e.id, self.types[e.id]
        if isinstance(e, ast.Attribute) and isinstance(e.value, ast.Name) and e.value.id == self.self_name:
            if e.attr not in self.fields: raise Unsupported('field ' + e.attr)
            return 'self_' + e.attr, self.fields[e.attr]
        if isinstance(e, ast.UnaryOp):
            a, ta = self.expr(e.operand)
            if isinstance(e.op, ast.Not) and ta == 'bool': return '(negb %s)' % a, 'bool'
            if isinstance(e.op, ast.USub) and ta == 'int': return '(- %s)' % a, 'int'
            raise Unsupported('unary op')
        if isinstance(e, ast.BinOp):
            a, ta = self.expr(e.left); b, tb = self.expr(e.right)
            if ta == tb == 'int':
                ops = {ast.Add: '+', ast.Sub: '-', ast.Mult: '*', ast.FloorDiv: '/', ast.Mod: 'mod'}
                if type(e.op) in ops: return '(%s %s %s)' % (a, ops[type(e.op)], b), 'int'
                if isinstance(e.op, ast.LShift): return '(Z.shiftl %s %s)' % (a, b), 'int'
                if isinstance(e.op, ast.RShift): return '(Z.shiftr %s %s)' % (a, b), 'int'
                if isinstance(e.op, ast.BitAnd): return '(Z.land %s %s)' % (a, b), 'int'
                if isinstance(e.op, ast.BitOr): return '(Z.lor %s %s)' % (a, b), 'int'
                if isinstance(e.op, ast.BitXor): return '(Z.lxor %s %s)' % (a, b), 'int'
            if ta == tb == 'bytes' and isinstance(e.op, ast.Add):
                return '(%s ++ %s)' % (a, b), 'bytes'
            raise Unsupported('binop %s on %s,%s' % (type(e.op).__name__, ta, tb))
        if isinstance(e, ast.Compare):
            parts = []; left = e.left
            for op, right in zip(e.ops, e.comparators):
                if isinstance(op, (ast.Is, ast.IsNot)) and isinstance(right, ast.Constant) and right.value is None:
                    a, ta = self.expr(left)
                    if ta != 'optint': raise Unsupported('is None on ' + ta)
                    txt = '(match %s with None => true | Some _ => false end)' % a
                    parts.append(txt if isinstance(op, ast.Is) else '(negb %s)' % txt); left = right; continue
                a, ta = self.expr(left); b, tb = self.expr(right)
                if ta == tb == 'int':
                    if type(op) in CMP: parts.append('(%s %s %s)' % (a, CMP[type(op)], b))
                    elif isinstance(op, ast.NotEq): parts.append('(negb (%s =? %s))' % (a, b))
                    else: raise Unsupported('compare op')
                elif ta == tb == 'bytes' and isinstance(op, (ast.Eq, ast.NotEq)):
                    parts.append('(beq %s %s)' % (a, b) if isinstance(op, ast.Eq) else '(negb (beq %s %s))' % (a, b))
                elif ta == tb == 'bool' and isinstance(op, (ast.Eq, ast.NotEq)):
                    parts.append('(Bool.eqb %s %s)' % (a, b) if isinstance(op, ast.Eq) else '(negb (Bool.eqb %s %s))' % (a, b))
                else:
                    raise Unsupported('compare %s with %s' % (ta, tb))
                left = right
            return ('(' + ' && '.join(parts) + ')') if len(parts) > 1 else parts[0], 'bool'
        if isinstance(e, ast.BoolOp):
            ts = [self.expr(v) for v in e.values]
            if any(t != 'bool' for _, t in ts): raise Unsupported('and/or on non-bool (truthiness is not translated)')
            return '(' + (' && ' if isinstance(e.op, ast.And) else ' || ').join(t for t, _ in ts) + ')', 'bool'
        if isinstance(e, ast.IfExp):
            c, tc = self.expr(e.test); a, ta = self.expr(e.body); b, tb = self.expr(e.orelse)
            if tc != 'bool' or ta != tb: raise Unsupported('conditional expression types')
            return '(if %s then %s else %s)' % (c, a, b), ta
        if isinstance(e, ast.Subscript):
            a, ta = self.expr(e.value)
            if ta != 'bytes': raise Unsupported('subscript of ' + ta)
            if isinstance(e.slice, ast.Slice):
                if e.slice.step is not None: raise Unsupported('slice step')
                def bound(x):
                    if x is None: return 'None'
                    v, tv = self.expr(x)
                    if tv != 'int': raise Unsupported('slice bound type')
                    return '(Some %s)' % v
                return '(zslice %s %s %s)' % (bound(e.slice.lower), bound(e.slice.upper), a), 'bytes'
            raise Unsupported('indexing (may raise)')
        if isinstance(e, ast.Call):
            fn = self.src(e.func)
            if fn == 'len' and len(e.args) == 1 and not e.keywords:
                a, ta = self.expr(e.args[0])
                if ta != 'bytes': raise Unsupported('len of ' + ta)
                return '(zlen %s)' % a, 'int'
            if fn in ('min', 'max') and len(e.args) == 2 and not e.keywords:
                a, ta = self.expr(e.args[0]); b, tb = self.expr(e.args[1])
                if ta == tb == 'int': return '(Z.%s %s %s)' % (fn, a, b), 'int'
                raise Unsupported('min/max types')
            if fn == 'abs' and len(e.args) == 1:
                a, ta = self.expr(e.args[0])
                if ta == 'int': return '(Z.abs %s)' % a, 'int'
            if fn in self.funcs and not self.funcs[fn].raises:
                f = self.funcs[fn]
                return self.call(f, e), f.ret
            raise Unsupported('call to %s in a pure position' % fn)
        raise Unsupported(ast.dump(e)[:100])

    def call(self, f, e):
        if e.keywords or len(e.args) != len(f.args): raise Unsupported('call arity/keywords: ' + self.src(e))
        args = []
        for a, want in zip(e.args, f.args):
            t, ty = self.expr(a)
            if ty != want: raise Unsupported('argument type %s, wanted %s in %s' % (ty, want, self.src(e)))
            args.append(t)
        return '(%s%s)' % (f.coq, ''.join(' ' + a for a in args))

    # ------------------------------------------------------------ statements
    def state(self):
        """Coq text of the current self record fields as a tuple (in FIELDS order)"""
        if not self.fields: return 'tt'
        return '(' + ', '.join('self_' + f for f in self.fields) + ')'

    def ret(self, valtext, valty):
        if self.ret_type is None: self.ret_type = valty
        if valty != self.ret_type: raise Unsupported('return type %s vs %s' % (valty, self.ret_type))
        v = '(%s, %s)' % (self.state(), valtext) if self.fields else valtext
        return 'RET(%s)' % v

    def block(self, stmts):
        """translates a statement list; falling off the end returns None"""
        if not stmts:
            return self.ret('tt', 'none')
        s, rest = stmts[0], stmts[1:]
        if isinstance(s, ast.Expr) and isinstance(s.value, ast.Constant) and isinstance(s.value.value, str):
            return self.block(rest)
        if isinstance(s, ast.Pass):
            return self.block(rest)
        if isinstance(s, ast.Return):
            if s.value is None: return self.ret('tt', 'none')
            if isinstance(s.value, ast.Call) and self.src(s.value.func) in self.funcs and self.funcs[self.src(s.value.func)].raises:
                tmp = ast.Name(id='ret__', ctx=ast.Load())
                return self.block([ast.Assign(targets=[ast.Name(id='ret__', ctx=ast.Store())], value=s.value), ast.Return(value=tmp)])
            v, ty = self.expr(s.value)
            return self.ret(v, ty)
        if isinstance(s, ast.Raise):
            self.raises = True
            exc = s.exc
            name = exc.func.id if isinstance(exc, ast.Call) and isinstance(exc.func, ast.Name) else (exc.id if isinstance(exc, ast.Name) else None)
            if name is None and isinstance(exc, ast.Call) and isinstance(exc.func, ast.Attribute): name = exc.func.attr
            if name not in self.exn_names: raise Unsupported('raise of ' + self.src(s))
            return 'RAISE(%s)' % name
        if isinstance(s, ast.Assign) and len(s.targets) == 1 and isinstance(s.value, ast.List) and not s.value.elts \
                and isinstance(s.targets[0], ast.Name) and self.hints.get(s.targets[0].id) == 'strlist':
            self.types[s.targets[0].id] = 'strlist'
            return 'let %s := (@nil bytes) in\n%s' % (s.targets[0].id, self.block(rest))
        if isinstance(s, ast.Expr) and isinstance(s.value, ast.Call) and isinstance(s.value.func, ast.Attribute) \
                and isinstance(s.value.func.value, ast.Name) and self.types.get(s.value.func.value.id) == 'strlist':
            lst = s.value.func.value.id; meth = s.value.func.attr; args = s.value.args
            if meth == 'insert' and len(args) == 2 and isinstance(args[0], ast.Constant) and args[0].value == 0:
                v, tv = self.expr(args[1])
                if tv != 'bytes': raise Unsupported('insert of ' + tv)
                return 'let %s := (%s :: %s) in\n%s' % (lst, v, lst, self.block(rest))
            if meth == 'append' and len(args) == 1:
                v, tv = self.expr(args[0])
                if tv != 'bytes': raise Unsupported('append of ' + tv)
                return 'let %s := (%s ++ [%s]) in\n%s' % (lst, lst, v, self.block(rest))
            raise Unsupported('list method ' + meth)
        if isinstance(s, ast.Assign) and len(s.targets) == 1:
            return self.assign(s.targets[0], s.value, rest)
        if isinstance(s, ast.AugAssign):
            load = ast.parse(self.src(s.target), mode='eval').body
            return self.block([ast.Assign(targets=[s.target], value=ast.BinOp(left=load, op=s.op, right=s.value))] + rest)
        if isinstance(s, ast.If) and isinstance(s.test, ast.Compare) and len(s.test.ops) == 1 \
                and isinstance(s.test.ops[0], (ast.Is, ast.IsNot)) and isinstance(s.test.comparators[0], ast.Constant) \
                and s.test.comparators[0].value is None:
            # `if x is [not] None:` on an optional int narrows x to int in the non-None branch
            x, tx = self.expr(s.test.left)
            if tx != 'optint': raise Unsupported('is None on ' + tx)
            key = self.src(s.test.left)
            some_body, none_body = (s.body, s.orelse) if isinstance(s.test.ops[0], ast.IsNot) else (s.orelse, s.body)
            saved = dict(self.types); savedc = dict(self.consts)
            var = 'some_' + ''.join(ch if ch.isalnum() else '_' for ch in key)
            self.consts[key] = (var, 'int')
            a = self.block(some_body + rest)
            self.consts = savedc; self.types = dict(saved)
            b = self.block(none_body + rest)
            self.types = dict(saved)
            return 'match %s with Some %s => (\n%s) | None => (\n%s) end' % (x, var, a, b)
        if isinstance(s, ast.If):
            c, tc = self.expr(s.test)
            if tc != 'bool': raise Unsupported('if on non-bool: ' + self.src(s.test))
            saved = dict(self.types)
            a = self.block(s.body + rest)
            self.types = dict(saved)
            b = self.block(s.orelse + rest)
            self.types = dict(saved)
            return 'if %s then (\n%s) else (\n%s)' % (c, a, b)
        if isinstance(s, ast.Try):
            return self.try_(s, rest)
        if isinstance(s, ast.While):
            return self.while_(s, rest)
        raise Unsupported(ast.dump(s)[:100])

    def bind_target(self, tgt, ty):
        if isinstance(tgt, ast.Name):
            if self.types.get(tgt.id, ty) != ty: raise Unsupported('local %s retyped %s -> %s' % (tgt.id, self.types[tgt.id], ty))
            self.types[tgt.id] = ty
            return tgt.id
        if isinstance(tgt, ast.Attribute) and isinstance(tgt.value, ast.Name) and tgt.value.id == self.self_name:
            if self.fields.get(tgt.attr) != ty: raise Unsupported('field %s := %s' % (tgt.attr, ty))
            self.assigned_fields.add(tgt.attr)
            return 'self_' + tgt.attr
        raise Unsupported('assignment target ' + self.src(tgt))

    def assign(self, tgt, value, rest):
        if isinstance(value, ast.Call) and self.src(value.func) in self.funcs and self.funcs[self.src(value.func)].raises:
            f = self.funcs[self.src(value.func)]
            self.raises = True
            call = self.call(f, value)
            name = self.bind_target(tgt, f.ret)
            return 'match %s with Exn e__ => RAISE(e__) | Ok %s =>\n%s end' % (call, name, self.block(rest))
        v, ty = self.expr(value)
        name = self.bind_target(tgt, ty)
        return 'let %s := %s in\n%s' % (name, v, self.block(rest))

    def try_(self, s, rest):
        # try: <one assignment from a raising call>  except (A, B): <handler block>   [no else/finally]
        if s.orelse or s.finalbody or len(s.body) != 1 or not isinstance(s.body[0], ast.Assign) or len(s.handlers) != 1:
            raise Unsupported('try shape')
        a = s.body[0]; h = s.handlers[0]
        if not (isinstance(a.value, ast.Call) and self.src(a.value.func) in self.funcs and self.funcs[self.src(a.value.func)].raises):
            raise Unsupported('try body is not a raising call')
        if h.name is not None: raise Unsupported('except ... as')
        if h.type is None: names = None
        elif isinstance(h.type, ast.Tuple): names = [self.src(x) for x in h.type.elts]
        else: names = [self.src(h.type)]
        if names is not None and any(n not in self.exn_names for n in names): raise Unsupported('except class')
        f = self.funcs[self.src(a.value.func)]
        call = self.call(f, a.value)
        saved = dict(self.types)
        handler = self.block(h.body + rest)
        self.types = dict(saved)
        name = self.bind_target(a.targets[0], f.ret)
        ok = self.block(rest)
        if names is None or 'Exception' in names:
            test = 'true'
        else:
            test = '(' + ' || '.join('(match e__ with %s => true | _ => false end)' % n for n in names) + ')'
        if test != 'true': self.raises = True
        return ('match %s with\n| Exn e__ => if %s then (\n%s) else RAISE(e__)\n| Ok %s =>\n%s end' % (call, test, handler, name, ok))

    def while_(self, s, rest):
        # while cond: body   (no break/continue/else; body is assignments / ifs without return/raise)
        if s.orelse: raise Unsupported('while-else')
        for n in ast.walk(s):
            if isinstance(n, (ast.Break, ast.Continue, ast.Return, ast.Raise)): raise Unsupported('control flow inside while')
        # loop state = every local/field assigned in the body
        assigned = []
        for n in ast.walk(ast.Module(body=s.body, type_ignores=[])):
            if isinstance(n, (ast.Assign, ast.AugAssign)):
                tg = n.targets[0] if isinstance(n, ast.Assign) else n.target
                nm = self.src(tg)
                if nm not in assigned: assigned.append(nm)
            if isinstance(n, ast.Expr) and isinstance(n.value, ast.Call) and isinstance(n.value.func, ast.Attribute) \
                    and isinstance(n.value.func.value, ast.Name) and n.value.func.attr in ('insert', 'append'):
                nm = n.value.func.value.id
                if nm not in assigned: assigned.append(nm)
        # all loop variables must already be bound (Python would otherwise leak new names; fail closed)
        vars_ = []
        for nm in assigned:
            if nm.startswith(self.self_name + '.'):
                f = nm.split('.', 1)[1]
                if f not in self.fields: raise Unsupported('loop field ' + nm)
                vars_.append(('self_' + f, self.fields[f]))
            else:
                if nm not in self.types:
                    continue    # first bound inside the body: body-local (using it after the loop fails closed)
                vars_.append((nm, self.types[nm]))
        free = [(n, t) for n, t in self.types.items() if n not in dict(vars_)] + \
               [('self_' + f, t) for f, t in self.fields.items() if 'self_' + f not in dict(vars_)]
        self.loop_id += 1
        lname = '%s_loop%d' % (self.name, self.loop_id)
        cond, tc = self.expr(s.test)
        if tc != 'bool': raise Unsupported('while on non-bool')
        tup = '(' + ', '.join(n for n, _ in vars_) + ')' if len(vars_) > 1 else vars_[0][0]
        tupty = ' * '.join(COQ_TY[t] for _, t in vars_)
        # body translated with a private continuation marker
        sub = Translator(self.types, self.fields, self.funcs, self.consts, self.self_name, hints=self.hints)
        sub.name = self.name
        sub.ret = lambda valtext, valty: 'CONT'
        body = sub.block(s.body)
        if sub.raises: raise Unsupported('raising call inside while')
        body = body.replace('CONT', '%s fuel__%s' % (lname, ''.join(' ' + n for n, _ in free + vars_)))
        params = ''.join(' (%s : %s)' % (n, COQ_TY[t]) for n, t in free + vars_)
        self.aux.append('Fixpoint %s (fuel_ : nat)%s {struct fuel_} : option (%s) :=\n  match fuel_ with O => None | S fuel__ =>\n  if %s then (\n%s) else Some %s end.\n'
                        % (lname, params, tupty, cond, body, tup))
        self.raises = True
        k = self.block(rest)
        return ('match %s (FUEL)%s with None => RAISE(OtherError) | Some %s =>\n%s end'
                % (lname, ''.join(' ' + n for n, _ in free + vars_), tup if len(vars_) > 1 else vars_[0][0], k))

def translate_function(fndef, name, params, fields=None, funcs=None, consts=None, ret_type=None, fuel=None, self_name='self', hints=None):
    """fndef: ast.FunctionDef; params: [(pyname, type)] excluding self.  Returns Coq text."""
    # a decorator can change the function's behaviour (caching, wrapping): only the transparent ones are accepted
    for d in fndef.decorator_list:
        dn = ast.unparse(d)
        if dn not in ('property', 'staticmethod', 'classmethod', 'abc.abstractmethod') and not dn.endswith('.setter'):
            raise Unsupported('decorator @%s on %s' % (dn, name))
    argn = [a.arg for a in fndef.args.args]
    if fields is not None or (argn and argn[0] == self_name):
        argn = argn[1:] if argn and argn[0] == self_name else argn
    if argn != [p for p, _ in params]:
        raise Unsupported('signature of %s changed: %s' % (name, argn))
    if fndef.args.vararg or fndef.args.kwarg or fndef.args.kwonlyargs: raise Unsupported('varargs')
    tr = Translator(params, fields, funcs, consts, self_name, ret_type, hints=hints)
    tr.name = name
    body = tr.block(fndef.body)
    if tr.ret_type is None: tr.ret_type = 'none'
    rty = COQ_TY[tr.ret_type]
    if fields: rty = '(%s) * %s' % (' * '.join(COQ_TY[t] for t in fields.values()), rty)
    if tr.raises:
        body = body.replace('RET(', 'Ok (').replace('RAISE(', 'Exn (')
        rty = 'res (%s)' % rty
    else:
        body = body.replace('RET(', '(')
    if 'FUEL' in body:
        if fuel is None: raise Unsupported('loop needs a fuel expression')
        body = body.replace('(FUEL)', '(%s)' % fuel)
    args = ''.join(' (%s : %s)' % (p, COQ_TY[t]) for p, t in params)
    if fuel == 'fuel':
        args = ' (fuel : nat)' + args
    selfargs = ''.join(' (self_%s : %s)' % (f, COQ_TY[t]) for f, t in (fields or {}).items())
    return ''.join(tr.aux) + 'Definition %s%s%s : %s :=\n%s.\n' % (name, selfargs, args, rty, body)

def get_fndef(module_ast, name, cls=None):
    body = module_ast.body
    if cls:
        for n in body:
            if isinstance(n, ast.ClassDef) and n.name == cls: body = n.body; break
        else: raise Unsupported('class %s not found' % cls)
    for n in body:
        if isinstance(n, ast.FunctionDef) and n.name == name:
            return n
    raise Unsupported('function %s not found' % name)
